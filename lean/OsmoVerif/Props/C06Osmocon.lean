/-
C06, osmocon's host side of the serial link (src/host/osmocon/osmocon.c).  Property theorems only.
Model: `Model/Osmocon.lean` over the sercomm layer of `Model/Sercomm.lean` / `Model/SercommMsgb.lean`;
lemmas: `Lemmas/Osmocon.lean`; constants regenerated from the tree (`Gen/Osmocon.lean`).

One finding is pinned here (G1 in the report): `handle_sercomm_write` has pulled the octets out of the
transmitter before it calls `write()`, and a short (or failed) `write()` is only reported — the octets
the serial device did not take are gone.  The full statement "everything queued reaches the line" is
kept as `write_lossless_full`, its negation is proved with the witness that is replayed on the real
code, and `write_lossless_partial` has the excluded region (every `write()` complete) as hypothesis.
-/
import OsmoVerif.Lemmas.Osmocon
import OsmoVerif.Props.C06

namespace OsmoVerif.Props.C06Osmocon
open OsmoVerif OsmoVerif.Sercomm OsmoVerif.Osmocon OsmoVerif.Gen.Sercomm OsmoVerif.Gen.Osmocon
open OsmoVerif.Msgb OsmoVerif.SercommMsgb

/-- What the theorems below need of the constants of the current tree (regenerated on every run): every
length `hdlc_send_to_phone` accepts fits the tailroom of the buffer it allocates (so `msgb_put(msg, len)`
cannot abort), that allocation is one `sercomm_alloc_msgb` can serve, `handle_sercomm_write` offers at
least one octet per call, the window is as long as every prompt table, and the prompt that leaves HDLC mode
contains a zero octet (which the link never puts on the wire unescaped).  The values themselves (512, 512,
256, 7 today) are not pinned: a different chunk size or a larger bound with a matching allocation is the
same link. -/
theorem constants :
    sendMax ≤ sendAlloc ∧ 1 ≤ sendAlloc ∧ sendAlloc ≤ 65531 ∧ 1 ≤ writeBuf ∧ 1 ≤ window ∧
    [phonePrompt1, phonePrompt2, phoneAck, phoneNack, phoneNackMagic, ftmtool].all (·.length == window) = true ∧
    0 ∈ phonePrompt1 := by
  decide

/-! ## `handle_sercomm_write` -/

/-- **Chunking.** One call offers to `write()` exactly the next `sizeof(buffer)` octets of the pull stream
(fewer when the transmitter runs dry), the line gets the first `rc` of them, and the transmitter
afterwards is the same whatever `write()` returned. -/
theorem write_chunking (t : Tx) (wr : List Nat → Int) :
    (handleSercommWrite t wr).offered = (pullN writeBuf t).2 ∧
    (handleSercommWrite t wr).line = ((pullN writeBuf t).2).take (wr (pullN writeBuf t).2).toNat ∧
    (handleSercommWrite t wr).tx = (pullN writeBuf t).1 ∧
    (handleSercommWrite t wr).tx = (handleSercommWrite t wrAll).tx :=
  ⟨(hsw_tx t wr).2, hsw_line t wr, (hsw_tx t wr).1, by rw [(hsw_tx t wr).1, (hsw_tx t wrAll).1]⟩

/-- **Complete writes are lossless** (partial: G1).  When every `write()` takes what it is offered, the
concatenation of the chunks written by `k` calls is exactly the first `k · 256` octets of the pull
stream — nothing dropped, nothing duplicated, nothing reordered — and the transmitter is where that
many pulls leave it. -/
theorem write_lossless_partial (k : Nat) (t : Tx) :
    (writeCalls t (List.replicate k wrAll)).2 = (pullN (k * writeBuf) t).2 ∧
    (writeCalls t (List.replicate k wrAll)).1 = (pullN (k * writeBuf) t).1 :=
  writeCalls_complete k t

/-- … so the receiver at the other end sees what it would see if it were fed by `sercomm_drv_pull`
directly (the assumption of `end_to_end_partial`: every pulled octet reaches the receiver). -/
theorem write_then_receive (k : Nat) (t : Tx) (c : RxCfg) (r : Rx) :
    feed c r (writeCalls t (List.replicate k wrAll)).2 = feed c r (pullN (k * writeBuf) t).2 := by
  rw [(writeCalls_complete k t).1]

/-- a `write()` as the operating system can behave: −1, or between 0 and `count` -/
def WriteOk (wr : List Nat → Int) : Prop := ∀ b, -1 ≤ wr b ∧ wr b ≤ b.length

/-- The statement one wants: whatever `write()` does, the octets on the line followed by what can still
be pulled are the pull stream (nothing queued is lost). -/
def write_lossless_full : Prop :=
  ∀ (t : Tx) (wrs : List (List Nat → Int)), (∀ wr ∈ wrs, WriteOk wr) → ∀ N,
    (writeCalls t wrs).2 ++ (pullN N (writeCalls t wrs).1).2 = (pullN (wrs.length * writeBuf + N) t).2

/-- one message `41` on DLCI 5 waiting -/
def txOneMsg : Tx := { Tx.init nTxQueues with queues := (Tx.init nTxQueues).queues.modify 5 (· ++ [[5, hdlcCUi, 0x41]]) }

/-- `write()` takes two octets -/
def wrTwo : List Nat → Int := fun b => min 2 b.length

/-- **G1**: it fails.  One message, frame `7E 05 03 41 7E`; `write()` takes 2 of the 5 octets: the line
has `7E 05`, the transmitter is empty, `03 41 7E` are gone. -/
theorem write_lossless_full_fails : ¬ write_lossless_full := by
  intro h
  have := h txOneMsg [wrTwo] (by intro wr hwr b; simp only [List.mem_singleton] at hwr; subst hwr; simp only [wrTwo]; omega) 10
  revert this
  decide +kernel

/-- what the witness does on the line and in the transmitter -/
theorem short_write_witness :
    (sendmsg (Tx.init nTxQueues) 5 [0x41]).map (·.queues) = some txOneMsg.queues ∧
    (pullN 16 txOneMsg).2 = [0x7E, 0x05, 0x03, 0x41, 0x7E] ∧
    (handleSercommWrite txOneMsg wrTwo).offered = [0x7E, 0x05, 0x03, 0x41, 0x7E] ∧
    (handleSercommWrite txOneMsg wrTwo).line = [0x7E, 0x05] ∧
    (handleSercommWrite txOneMsg wrTwo).short = true ∧
    (handleSercommWrite (handleSercommWrite txOneMsg wrTwo).tx wrAll).offered = [] := by
  decide +kernel

/-- … and at the receiver: the truncated frame swallows the start of the next one.  A second message
`42` sent afterwards with complete writes arrives as `05 03 42` — one message lost, the next one
delivered with a wrong payload (the property demands identical payload, exactly once). -/
theorem short_write_corrupts_next :
    Sercomm.evDeliveries (feed ⟨rxMsgSizeTarget + allocSlack, nRxHandlers, fun d => d == 5⟩ Rx.init
      ([0x7E, 0x05] ++ [0x7E, 0x05, 0x03, 0x42, 0x7E])).2 = [(5, [0x05, 0x03, 0x42])] := by
  decide +kernel

/-! ## `hdlc_send_to_phone` -/

/-- **The exact bound** (`sendMax` = 512 in this tree). For `−2^31 ≤ len`: `len > 512` → the message is dropped (nothing allocated,
nothing queued, write not enabled); `0 ≤ len ≤ 512` (and that many octets in the caller's array, DLCI
inside the queue array) → queued without any msgb fault, as the abstract `sercomm_sendmsg` of
`data[0 .. len)`; `len < 0` → the `(int)` comparison in `msgb_put` lets it pass and the tail pointer
leaves the buffer (the callers in the tree pass a `uint16_t`).  Because `sercomm_alloc_msgb(512)` has
exactly 512 octets of tailroom plus 4 of headroom, the accepted bound is the allocation size itself,
not "512 minus headroom". -/
theorem hdlc_send_exact_bound {ct : CTx} {t : Tx} (hr : TxRel ct t) (dlci : Nat) (data : List Nat) (len : Int)
    (hlo : -2147483648 ≤ len) :
    (len > (sendMax : Int) → hdlcSendToPhone ct dlci data len = .tooMuch) ∧
    (len < 0 → hdlcSendToPhone ct dlci data len = .fault (.msgb .oob)) ∧
    (0 ≤ len → len ≤ (sendMax : Int) → len.toNat ≤ data.length → dlci < ct.queues.length →
      ∃ ct' t', hdlcSendToPhone ct dlci data len = .sent ct' ∧
        sendmsg t dlci (data.take len.toNat) = some t' ∧ TxRel ct' t') :=
  ⟨fun h => hdlcSend_tooMuch ct dlci data h, fun h => hdlcSend_negative ct dlci data h hlo,
   fun h0 h1 hd hq => by
     obtain ⟨ct', t', a, b, c, _⟩ := hdlcSend_ok hr h0 h1 hd hq
     exact ⟨ct', t', a, b, c⟩⟩

/-- What the bound does not tell: the firmware's receive buffer holds 256 octets, so a message of 256 to
512 octets is accepted by `hdlc_send_to_phone`, transmitted, and discarded by the receiver of the
target build (never delivered; from 257 on it also costs the frame that follows, `overlong_bounded`). -/
theorem hdlc_send_over_256_never_arrives_on_target (d : Nat) (p : List Nat)
    (ht : Spec.Sercomm.Transparent d) (hreg : Props.C06.cfgTarget.reg d = true) (hnh : d < Props.C06.cfgTarget.nh)
    (hl : Props.C06.cfgTarget.cap ≤ p.length) :
    Sercomm.evDeliveries (feed Props.C06.cfgTarget.toRxCfg Rx.init (Spec.Sercomm.frame ⟨d, p⟩)).2 = [] := by
  have h := (frame_outcome Props.C06.cfgTarget.toRxCfg (by decide) (by decide) Rx.init false ⟨rfl, rfl⟩ ⟨d, p⟩ ht hreg hnh).2
  rw [h]
  have : ¬ p.length < Props.C06.cfgTarget.cap := by omega
  simp [completeDelivers, this]

/-- osmocon's `hdlc_tool_cb` pushes a 2 octet length in front of a delivered buffer (`msgb_push(msg, 2)`):
the buffers `sercomm_drv_rx_char` hands to a handler always have the 4 octets of headroom for it. -/
theorem delivered_msgb_takes_push {size : Nat} {m : Msgb} (h : RxBuf size m) : ∃ m', pushBytes m [0, 0] = .ok m' :=
  pushBytes_succeeds h.inv (by rw [h.data]; decide)

/-! ## the read side -/

/-- **The window is memory safe.** From a state in which `bufptr` points into `buffer[7]` (as after
start-up), `handle_buffer` reads into `buffer[bufptr .. bufptr + buf_left)` ⊆ `buffer[0 .. 7)`, and
`handle_read` leaves `bufptr` inside the window again — for every `read()` behaviour. -/
theorem window_memory_safe (c : Cfg) (h : Host) (fd : Fd) (ok : HostOk h) :
    (handleBuffer c h fd).1.oob = false ∧
    (handleBuffer c h fd).1.bufptr + ((handleBuffer c h fd).2.2).toNat ≤ window ∧
    HostOk (handleRead c h fd).1 ∧ HostOk (Host.init nTxQueues) :=
  ⟨(handleBuffer_ok c fd ok).2.1, (handleBuffer_ok c fd ok).2.2, handleRead_ok c fd ok,
   ⟨by decide, by decide, rfl⟩⟩

/-- frames of the link contain no zero octet (flags are 0x7E, everything between them is escaped) -/
theorem frames_zero_free (ms : List Spec.Sercomm.Msg) : ZeroFree (ms.flatMap Spec.Sercomm.frame) := by
  intro x hx
  simp only [List.mem_flatMap] at hx
  obtain ⟨m, _, hm⟩ := hx
  simp only [Spec.Sercomm.frame, List.mem_cons, List.mem_append, List.mem_singleton,
    List.not_mem_nil, or_false] at hm
  rcases hm with (rfl | hm) | rfl
  · decide
  · exact (esc_clean _ x hm).2
  · decide

/-- **The read loop feeds every octet, once, in order.** In HDLC mode, with no zero octet in the window
and none in the readable stream (e.g. any sequence of frames, `frames_zero_free`), `serial_read` passes
every readable octet to `sercomm_drv_rx_char` exactly once and in order — independent of how `read()`
chunks them and of the sliding of the window —, ends on `EAGAIN` (`exit(2)` exactly on end of file),
stays in HDLC mode and keeps the window intact.  An octet for which `sercomm_drv_rx_char` returns 0
(receive buffer full) is reported and NOT retried: that is the overflow behaviour `overlong_bounded`
accounts for. -/
theorem read_loop_feeds_everything (c : Cfg) (h : Host) (fd : Fd) (ok : HostOk h) (hz : ZeroFree h.buffer)
    (hs : ZeroFree fd.avail) (he : h.expectHdlc = true) :
    (serialRead c h fd).1.w = fd.avail.foldl (World.rxOctet c) h.w ∧
    (serialRead c h fd).2.1.avail = [] ∧ (serialRead c h fd).2.2 = fd.eof ∧
    HostOk (serialRead c h fd).1 ∧ (serialRead c h fd).1.expectHdlc = true :=
  serialRead_feeds c h fd ok hz hs he

/-- … which is the abstract `rx` operation of a history (`World.step c w (.rx octets)`). -/
theorem read_loop_is_rx_op (c : Cfg) (h : Host) (fd : Fd) (ok : HostOk h) (hz : ZeroFree h.buffer)
    (hs : ZeroFree fd.avail) (he : h.expectHdlc = true) :
    (serialRead c h fd).1.w = World.step c h.w (.rx fd.avail) :=
  (serialRead_feeds c h fd ok hz hs he).1

/-- what happens without the zero-freeness: the octets of `phone_prompt1` in the stream switch HDLC
mode off, and what follows is not fed to the receiver (the phone has rebooted into its loader) -/
theorem prompt1_leaves_hdlc :
    let c := (HandlerTab.init nRxHandlers).cfg (rxMsgSizeHost + allocSlack)
    let h0 : Host := { Host.init nTxQueues with expectHdlc := true }
    (serialRead c h0 ⟨phonePrompt1 ++ [0x7E, 0x05, 0x03, 0x41, 0x7E], 0, false⟩).1.expectHdlc = false := by
  decide +kernel

/-! ### non-vacuity -/

example : WriteOk wrAll ∧ WriteOk wrTwo := by
  refine ⟨fun b => ?_, fun b => ?_⟩ <;> simp only [wrAll, wrTwo] <;> omega
example : (writeCalls txOneMsg [wrAll]).2 = [0x7E, 0x05, 0x03, 0x41, 0x7E] := by decide +kernel
example : TxRel (CWorld.init nTxQueues).tx (World.init nTxQueues).tx := (init_rel 0 nTxQueues).tx
example : ∃ ct, hdlcSendToPhone (CWorld.init nTxQueues).tx 5 [1, 2, 3] 3 = .sent ct := by
  obtain ⟨ct, _, h, _⟩ := hdlcSend_ok (init_rel 0 nTxQueues).tx (dlci := 5) (data := [1, 2, 3]) (len := 3)
    (by decide) (by decide) (by decide) (by simp [CWorld.init, CTx.init, nTxQueues])
  exact ⟨ct, h⟩
example : ZeroFree (Host.init nTxQueues |>.buffer) → False := by
  intro h; exact h 0 (by decide) rfl
/-- a window that has seen seven octets of frames, HDLC mode on: the hypotheses of `read_loop_feeds_everything` -/
example : let h : Host := { Host.init nTxQueues with buffer := [0x7E, 5, 3, 0x41, 0x7E, 0x7E, 5], bufptr := 7, expectHdlc := true }
    HostOk h ∧ ZeroFree h.buffer ∧ ZeroFree (Spec.Sercomm.frame ⟨5, [0x00, 0x7E]⟩) :=
  ⟨⟨by decide, by decide, rfl⟩, by decide, by decide⟩

end OsmoVerif.Props.C06Osmocon
