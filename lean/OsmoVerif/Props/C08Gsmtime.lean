/-
C08, part "gsmtime" — one-shot scheduling of an item set at an absolute GSM frame number
(src/target/firmware/layer1/sched_gsmtime.c) on top of the TDMA scheduler.

Property theorems only.  Model: `OsmoVerif.Model.SchedGsmtime` (sched_gsmtime.c statement by statement; the
`tdma_schedule_set` it calls is `OsmoVerif.TdmaSched.scheduleSet` of `Model/TdmaSched.lean`), lemmas:
`OsmoVerif.Lemmas.SchedGsmtime`, `OsmoVerif.Lemmas.SchedGsmtimeTdma`.

Reading guide
* `GInv g`          : every element of `sched_gsmtime_events[16]` is linked into exactly one of `active_evts` /
                      `inactive_evts`, and `active_evts` is sorted by `fn` (non-decreasing).  Decidable; holds after
                      `sched_gsmtime_init()` (`init_inv`) and is preserved by every operation (`pool_invariant`).
* an event          : `Event` = the `struct sched_gsmtime_event` linked into a list; its identity while it is pending
                      is `slot`, the array element it occupies.  A `Call` records one `tdma_schedule_set` call made by
                      `sched_gsmtime_execute` together with the slot of the event it was made for.
* `target fn`       : `fn_sched = (fn + SCHEDULE_AHEAD) % GSM_MAX_FN`, the sum in 32 bit unsigned:
                      `((fn mod 2^32 + 2) mod 2^32) mod 2715648`; `(fn + 2) mod 2715648` for `fn < GSM_MAX_FN`.
* a frame interrupt : `l1Sync` = requests `pre`; `tdma_sched_execute()`; requests `mid` (`mframe_schedule()`);
                      `sched_gsmtime_execute(fn)`; `tdma_sched_advance()` — the order of `l1_sync()` in layer1/sync.c.
                      `runFrames` = consecutive frame interrupts.  Requests are `sched_gsmtime()` / `tdma_schedule*()`
                      calls (`FrameNoGexec`, resp. admissible ones that do not schedule the observed item:
                      `FrameTraffic`); `sched_gsmtime()` is never called from inside `sched_gsmtime_execute()`.
* callbacks         : `Env` (of `Model/TdmaSched.lean`) says what a callback returns and which scheduler calls it makes
                      from inside `tdma_sched_execute()`.  The statements about sched_gsmtime.c alone hold for every
                      `Env`; `frames_safe` needs the calls made from inside to be admissible (`EnvOk env`); the composed
                      statements `event_set_runs_at` / `event_set_runs_in_frame` assume that callbacks make no such calls
                      (`NoReentry env`, explicit hypothesis).
* frame arithmetic  : an event for frame `F` is handed over by `sched_gsmtime_execute((F - 2) mod GSM_MAX_FN)` with frame offset
                      `SCHEDULE_AHEAD - SCHEDULE_LATENCY = 1`; the scheduler advances at the end of that interrupt, so
                      the k-th frame of its item set runs in the `tdma_sched_execute()` of frame `F - 1 + k`
                      (`F - SCHEDULE_LATENCY` for k = 0), all frame numbers modulo `GSM_MAX_FN`.
-/
import OsmoVerif.Lemmas.SchedGsmtimeTdma

set_option linter.unusedVariables false

namespace OsmoVerif.Props.C08Gsmtime
open OsmoVerif OsmoVerif.SchedGsmtime
open OsmoVerif.TdmaSched (Item Sched Fault Env u16 Cb Inv OpOk abs ranCount framesOf markers EnvOk NoReentry)
open OsmoVerif.Spec.TdmaSched (AItem At)

/-- The constants of the current tree, as the C compiler sees them: 16 event slots, `SCHEDULE_AHEAD = 2`,
`SCHEDULE_LATENCY = 1`, the frame offset argument `(uint8_t)(2 - 1) = 1` (also as the model computes it),
`EBUSY = 16`, `uint32_t fn`, `uint16_t p3`, `fn + SCHEDULE_AHEAD` and its reduction modulo `GSM_MAX_FN` computed in
32 bit unsigned, `GSM_MAX_FN = 2715648`, and the function types the model assumes. -/
theorem gen_consts :
    Gen.sgNumEvents = 16 ∧ Gen.sgScheduleAhead = 2 ∧ Gen.sgScheduleLatency = 1 ∧ Gen.sgFrameOffset = 1 ∧
    frameOffset = Gen.sgFrameOffset ∧ Gen.sgEBUSY = 16 ∧ eBusy = -16 ∧
    Gen.sgWidth_fn = (32, false) ∧ Gen.sgWidth_p3 = (16, false) ∧ Gen.sgWidth_sum = (32, false) ∧
    Gen.sgWidth_mod = (32, false) ∧
    Gen.sgGsmMaxFn = 2715648 ∧ Gen.sgSignatures = (true, true) := by
  repeat' apply And.intro
  all_goals decide

/-! ### the pool and the sorted list -/

/-- After `sched_gsmtime_init()`: the invariant holds, nothing is pending, all 16 slots are free. -/
theorem init_inv : GInv init ∧ init.active = [] ∧ init.inactive.length = 16 := by decide

/-- **Pool / list invariant.**  `active ++ inactive` is a permutation of the 16 slots and `active` is sorted by
`fn`: preserved by `sched_gsmtime`, `sched_gsmtime_execute`, `sched_gsmtime_reset`, hence by every history of
operations of the two schedulers. -/
theorem pool_invariant :
    (∀ g si fn p3, GInv g → GInv (sched g si fn p3).1) ∧
    (∀ g g' s s' fn num cs, GInv g → execute g s fn = .ok (g', s', num, cs) → GInv g') ∧
    (∀ g, GInv g → GInv (reset g)) ∧
    (∀ env ops st st' outs, GInv st.g → srun env st ops = .ok (st', outs) → GInv st'.g) :=
  ⟨fun g si fn p3 h => sched_inv g si fn p3 h,
   fun g g' s s' fn num cs h he => execute_inv g g' s s' fn num cs h he,
   fun g h => reset_inv g h,
   fun env ops st st' outs h hs => (srun_g env ops st st' outs h hs).2⟩

/-- **`-EBUSY` exactly when 16 events are pending, and then nothing changes.** -/
theorem busy_iff (g : GState) (si : List Item) (fn p3 : Nat) (h : GInv g) :
    ((sched g si fn p3).2 = -16 ↔ g.active.length = 16) ∧
    (g.active.length = 16 → sched g si fn p3 = (g, -16)) ∧
    (g.active.length < 16 → (sched g si fn p3).2 = 0) := by
  have hlen := h.length
  cases hi : g.inactive with
  | nil =>
    have h16 := (inactive_nil_iff h).mp hi
    rw [sched_busy g si fn p3 hi, eBusy_eq]
    exact ⟨⟨fun _ => h16, fun _ => rfl⟩, fun _ => rfl, fun hlt => by omega⟩
  | cons lh rest =>
    have hne : g.active.length ≠ 16 := fun h16 => by
      have := (inactive_nil_iff h).mpr h16
      rw [hi] at this; simp at this
    rw [sched_ok g si fn p3 lh rest hi]
    exact ⟨⟨fun h0 => by simp at h0, fun h16 => absurd h16 hne⟩, fun h16 => absurd h16 hne, fun _ => rfl⟩

/-- **An accepted request.**  With fewer than 16 events pending `sched_gsmtime(si, fn, p3)` returns 0 and links
one event — a slot that was free, carrying `si`, `(uint32_t) fn`, `(uint16_t) p3` — into the active list; every
other pending event stays (the active list is a permutation of the new event and the old list), and among
the events for any one frame the new event is the last (requests for the same frame keep their order). -/
theorem sched_accepts (g : GState) (si : List Item) (fn p3 : Nat) (h : GInv g) (hroom : g.active.length < 16) :
    ∃ ev, (sched g si fn p3).2 = 0 ∧ ev.si = si ∧ ev.fn = u32 fn ∧ ev.p3 = u16 p3 ∧
      ev.slot ∉ slots g.active ∧ ev.slot ∈ slots g.inactive ∧
      (sched g si fn p3).1.active.Perm (ev :: g.active) ∧
      (sched g si fn p3).1.inactive.length + 1 = g.inactive.length ∧
      ∀ t, (sched g si fn p3).1.active.filter (fun e => e.fn = t) =
        g.active.filter (fun e => e.fn = t) ++ (if ev.fn = t then [ev] else []) := by
  cases hi : g.inactive with
  | nil =>
    have := (inactive_nil_iff h).mp hi
    omega
  | cons lh rest =>
    rw [sched_ok g si fn p3 lh rest hi]
    refine ⟨⟨lh.slot, si, u32 fn, u16 p3⟩, rfl, rfl, rfl, rfl, ?_, by simp [slots], insertSorted_perm _ _,
      by simp, fun t => filter_insertSorted _ t _ h.2⟩
    have hn := h.nodup
    rw [hi] at hn
    simp only [slots, List.map_append, List.map_cons] at hn
    have := (List.nodup_append.mp hn).2.2
    intro hmem
    exact this _ hmem _ (List.mem_cons_self ..) rfl

/-- **What one `sched_gsmtime_execute(fn)` does.**  On a state satisfying the invariant the call makes exactly
one `tdma_schedule_set(1, si, p3)` call for every pending event with `evt->fn == fn_sched` (`target fn`), in list
order (= order of acceptance), returns their number, unlinks exactly these events (their slots are free again)
and leaves every other event pending, in order.  In particular the early `break` at the first event with a
larger `fn` never cuts off an event that is due, and an event with a smaller `fn` (too late, see
`stale_never_fires`) neither fires nor keeps later events from firing. -/
theorem execute_fires_exactly (g g' : GState) (s s' : Sched) (fn : Nat) (num : Int) (cs : List Call)
    (h : GInv g) (he : execute g s fn = .ok (g', s', num, cs)) :
    CallsOf (g.active.filter (fun e => e.fn = target fn)) cs ∧
    num = ((g.active.filter (fun e => e.fn = target fn)).length : Int) ∧
    g'.active = g.active.filter (fun e => !decide (e.fn = target fn)) ∧
    g'.inactive = (g.active.filter (fun e => e.fn = target fn)).reverse ++ g.inactive ∧
    schedAll s (g.active.filter (fun e => e.fn = target fn)) = .ok (s', cs) := by
  obtain ⟨h1, h2, h3, h4⟩ := execute_g g g' s s' fn num cs h he
  exact ⟨h4, h3, by rw [h1]; rfl, by rw [h1]; rfl, h2⟩

/-- **A due event fires whatever else is pending** (the `break` test): every pending event with
`evt->fn == fn_sched` gets its call — exactly one with its slot, carrying its item set and `p3` — no
matter which events with smaller (stale) or larger `fn` are in the list. -/
theorem due_event_fires (g g' : GState) (s s' : Sched) (fn : Nat) (num : Int) (cs : List Call) (ev : Event)
    (h : GInv g) (he : execute g s fn = .ok (g', s', num, cs)) (hev : ev ∈ g.active)
    (hdue : ev.fn = target fn) :
    ∃ c, cs.filter (fun c => c.slot = ev.slot) = [c] ∧ CallFor ev c ∧ ev ∉ g'.active ∧ ev ∈ g'.inactive := by
  obtain ⟨h1, _, _, h4⟩ := execute_g g g' s s' fn num cs h he
  obtain ⟨m1, m2, m3⟩ := gexecG_hit g fn ev h hev hdue.symm
  have := h4.filter_slot ev.slot
  rw [m1] at this
  obtain ⟨c, hc1, hc2⟩ := this.singleton
  exact ⟨c, hc1, hc2, by rw [h1]; exact m2, by rw [h1]; exact m3⟩

/-- An event that is not due stays pending and no call is made for it. -/
theorem other_event_stays (g g' : GState) (s s' : Sched) (fn : Nat) (num : Int) (cs : List Call) (ev : Event)
    (h : GInv g) (he : execute g s fn = .ok (g', s', num, cs)) (hev : ev ∈ g.active)
    (hne : ev.fn ≠ target fn) :
    cs.filter (fun c => c.slot = ev.slot) = [] ∧ ev ∈ g'.active := by
  obtain ⟨h1, _, _, h4⟩ := execute_g g g' s s' fn num cs h he
  obtain ⟨m1, m2⟩ := gexecG_miss g fn ev h hev (fun hh => hne hh.symm)
  have := h4.filter_slot ev.slot
  rw [m2] at this
  exact ⟨this.nil_left, by rw [h1]; exact m1⟩

/-! ### exactly once -/

/-- **Exactly once, at the first frame interrupt whose `fn_sched` is the event's frame.**  For a pending
event `ev` and any sequence of frame interrupts (any frame numbers) whose requests contain no
`sched_gsmtime_execute` / `sched_gsmtime_reset`: in every frame up to and including the first one with
`target fn = ev.fn`, `sched_gsmtime_execute` makes no call for the event's slot if `target fn ≠ ev.fn`, and
exactly one — `tdma_schedule_set(1, ev.si, ev.p3)` — if `target fn = ev.fn`.  (Afterwards the slot is free and
may be taken by a later request.) -/
theorem fires_at_first_hit (env : Env) : ∀ (frs : List Frame) (st st' : Sys) (outs : List FrameOut)
    (ev : Event), GInv st.g → ev ∈ st.g.active → (∀ fr ∈ frs, FrameNoGexec fr) →
    runFrames env st frs = .ok (st', outs) →
    ∀ (i : Nat) (fr : Frame) (o : FrameOut), frs[i]? = some fr → outs[i]? = some o →
      (∀ (j : Nat) (fr' : Frame), j < i → frs[j]? = some fr' → target fr'.fn ≠ ev.fn) →
      (target fr.fn ≠ ev.fn → o.calls.filter (fun c => c.slot = ev.slot) = []) ∧
      (target fr.fn = ev.fn → ∃ c, o.calls.filter (fun c => c.slot = ev.slot) = [c] ∧ CallFor ev c)
  | [], _, _, _, _, _, _, _, _, i, fr, o, hfr, _, _ => by simp at hfr
  | fr0 :: frs, st, st', outs, ev, hinv, hev, hno, hrun, i, fr, o, hfr, ho, hbefore => by
    obtain ⟨st1, o0, os, h1, h2, h3⟩ := runFrames_cons_ok env st st' fr0 frs outs hrun
    have hno0 := hno fr0 (List.mem_cons_self ..)
    rw [h3] at ho
    cases i with
    | zero =>
      simp only [List.getElem?_cons_zero, Option.some.injEq] at hfr ho
      subst hfr; subst ho
      constructor
      · intro hne
        exact (frames_miss env [fr0] st st1 [o0] ev hinv hev
          (by intro f hf; simp only [List.mem_singleton] at hf; subst hf; exact ⟨hno0, hne⟩)
          (by simp only [runFrames, h1, bind, Except.bind, pure, Except.pure])).2.2 o0 (List.mem_singleton.mpr rfl)
      · intro heq
        exact (frame_hit env st st1 fr0 o0 ev hinv hev hno0 heq h1).2.2.2
    | succ i =>
      simp only [List.getElem?_cons_succ] at hfr ho
      have hne0 : target fr0.fn ≠ ev.fn := hbefore 0 fr0 (by omega) rfl
      obtain ⟨hi1, hev1, _⟩ := frames_miss env [fr0] st st1 [o0] ev hinv hev
        (by intro f hf; simp only [List.mem_singleton] at hf; subst hf; exact ⟨hno0, hne0⟩)
        (by simp only [runFrames, h1, bind, Except.bind, pure, Except.pure])
      exact fires_at_first_hit env frs st1 st' os ev hi1 hev1 (fun f hf => hno f (List.mem_cons_of_mem _ hf)) h2
        i fr o hfr ho (fun j fr' hj hfr' => hbefore (j + 1) fr' (by omega) (by simpa using hfr'))

/-- **Exactly once** (structured form): frames `frs` in none of which `target fn` is the event's frame, then the
frame `last` with `target last.fn = ev.fn`.  No call for the event's slot in `frs`, exactly one in `last`; after
it the event is no longer pending, its slot is in the free list, the invariant holds. -/
theorem fires_exactly_once (env : Env) (st st' : Sys) (ev : Event) (frs : List Frame) (last : Frame)
    (outs : List FrameOut) (hinv : GInv st.g) (hev : ev ∈ st.g.active)
    (hfrs : ∀ fr ∈ frs, FrameNoGexec fr ∧ target fr.fn ≠ ev.fn)
    (hlast : FrameNoGexec last ∧ target last.fn = ev.fn)
    (hrun : runFrames env st (frs ++ [last]) = .ok (st', outs)) :
    ∃ outs1 o c, outs = outs1 ++ [o] ∧ outs1.length = frs.length ∧
      (∀ o' ∈ outs1, o'.calls.filter (fun c => c.slot = ev.slot) = []) ∧
      o.calls.filter (fun c => c.slot = ev.slot) = [c] ∧ CallFor ev c ∧
      GInv st'.g ∧ ev ∉ st'.g.active ∧ ev ∈ st'.g.inactive := by
  obtain ⟨st1, o1, o2, h1, h2, h3⟩ := runFrames_append env frs [last] st st' outs hrun
  obtain ⟨i1, e1, c1⟩ := frames_miss env frs st st1 o1 ev hinv hev hfrs h1
  obtain ⟨st2, o, os, h4, h5, h6⟩ := runFrames_cons_ok env st1 st' last [] o2 h2
  simp only [runFrames, Except.ok.injEq, Prod.mk.injEq] at h5
  obtain ⟨i2, n2, m2, c, hc1, hc2⟩ := frame_hit env st1 st2 last o ev i1 e1 hlast.1 hlast.2 h4
  refine ⟨o1, o, c, by rw [h3, h6, ← h5.2], runFrames_length env frs st st1 o1 h1, c1, hc1, hc2, ?_, ?_, ?_⟩
  · rw [← h5.1]; exact i2
  · rw [← h5.1]; exact n2
  · rw [← h5.1]; exact m2

/-! ### frame arithmetic

The firmware counts frames modulo `GSM_MAX_FN = 2715648` (`l1s_time_inc`, sync.c), both callers reduce the frame
number they ask for modulo `GSM_MAX_FN` (prim_rach.c `fn_sched %= GSM_MAX_FN`, prim_freq.c
`if (fn_sched >= GSM_MAX_FN) fn_sched -= GSM_MAX_FN`), and `sched_gsmtime_execute` compares `evt->fn` with
`fn_sched = (fn + SCHEDULE_AHEAD) % GSM_MAX_FN`.  For an event for frame `F` that is pending when the next
`sched_gsmtime_execute` is the one of frame `fn0`, `d = (F − fn0) mod GSM_MAX_FN` (written
`(F + 2715648 - fn0) % 2715648`) is how many frames ahead it is.  (Before repo fix F21 the comparison was with
the unreduced `fn + SCHEDULE_AHEAD` and events for the frames 0 and 1 were never handed over.) -/

/-- frame numbers as the firmware counts them: stepping by one modulo `GSM_MAX_FN` -/
def SteppingMod (fn0 : Nat) (frs : List Frame) : Prop :=
  ∀ i fr, frs[i]? = some fr → fr.fn = (fn0 + i) % 2715648

instance (fn0 : Nat) (frs : List Frame) : Decidable (SteppingMod fn0 frs) :=
  decidable_of_iff (∀ i, i < frs.length → ∀ fr, frs[i]? = some fr → fr.fn = (fn0 + i) % 2715648)
    ⟨fun h i fr hf => h i (TdmaSched.lt_of_get? _ _ _ hf) fr hf, fun h i _ fr hf => h i fr hf⟩

/-- **Exactly once, in frame `(F − SCHEDULE_AHEAD) mod GSM_MAX_FN` — across the hyperframe wrap as well.**  An
event for frame `F < GSM_MAX_FN` that is pending when the next `sched_gsmtime_execute` is the one of frame
`fn0 < GSM_MAX_FN`, `d ≥ 2` frames ahead, frame numbers stepping by one modulo `GSM_MAX_FN`, no reset: within
the next `d − 1` frame interrupts exactly one `tdma_schedule_set` call is made for it — in the `(d − 2)`-th from
here, the one of frame `(F − 2) mod GSM_MAX_FN` — with frame offset 1, its item set and its `p3`.  This includes
`F ∈ {0, 1}` while `fn` runs through 2715646, 2715647, 0. -/
theorem wrap_full (env : Env) (st st' : Sys) (ev : Event) (fn0 : Nat) (frs : List Frame)
    (outs : List FrameOut) (hinv : GInv st.g) (hev : ev ∈ st.g.active) (hfn0 : fn0 < 2715648)
    (hF : ev.fn < 2715648) (hd : 2 ≤ (ev.fn + 2715648 - fn0) % 2715648) (hstep : SteppingMod fn0 frs)
    (hno : ∀ fr ∈ frs, FrameNoGexec fr) (hlen : frs.length + 1 ≤ (ev.fn + 2715648 - fn0) % 2715648)
    (hrun : runFrames env st frs = .ok (st', outs)) :
    ∀ i o, outs[i]? = some o →
      ((o.calls.filter (fun c => c.slot = ev.slot)).length =
        if i + 2 = (ev.fn + 2715648 - fn0) % 2715648 then 1 else 0) ∧
      ∀ c ∈ o.calls, c.slot = ev.slot → CallFor ev c := by
  have hlen' : outs.length = frs.length := runFrames_length env _ _ _ _ hrun
  intro i o ho
  have hi : i < frs.length := by rw [← hlen']; exact TdmaSched.lt_of_get? _ _ _ ho
  have hfr : frs[i]? = some frs[i] := by simp [hi]
  have htgt : ∀ j, j < frs.length → (target ((fn0 + j) % 2715648) = ev.fn ↔
      j + 2 = (ev.fn + 2715648 - fn0) % 2715648) := by
    intro j hj
    rw [target_mod _ (by omega)]
    omega
  obtain ⟨r1, r2⟩ := fires_at_first_hit env frs st st' outs ev hinv hev hno hrun i _ o hfr ho
    (by
      intro j fr' hj hfr'
      rw [hstep j fr' hfr']
      intro hh
      have := (htgt j (by omega)).mp hh
      omega)
  rw [hstep i _ hfr] at r1 r2
  by_cases hh : i + 2 = (ev.fn + 2715648 - fn0) % 2715648
  · obtain ⟨c, hc1, hc2⟩ := r2 ((htgt i hi).mpr hh)
    simp only [hh, if_true, hc1, List.length_singleton, true_and]
    intro c' hc' hs
    have : c' ∈ o.calls.filter (fun c => c.slot = ev.slot) := by simp [hc', hs]
    rw [hc1] at this
    rw [List.mem_singleton.mp this]
    exact hc2
  · have hnil := r1 (fun h => hh ((htgt i hi).mp h))
    simp only [hh, if_false, hnil, List.length_nil, true_and]
    intro c' hc' hs
    have : c' ∈ o.calls.filter (fun c => c.slot = ev.slot) := by simp [hc', hs]
    rw [hnil] at this
    simp at this

/-- **An accepted request fires exactly once, in frame `F − SCHEDULE_AHEAD`.**  A request for frame
`F < GSM_MAX_FN` accepted while the next `sched_gsmtime_execute` is the one of frame `fn0`, at least 2 frames ahead
(modulo `GSM_MAX_FN`), no reset: `sched_gsmtime` returns 0, and in the following frame interrupts up to the one
of frame `(F − 2) mod GSM_MAX_FN` exactly one `tdma_schedule_set` call is made for the new event — in that last
one — with frame offset 1, the `si` and the `(uint16_t) p3` of the request.  (Called between two frame
interrupts, after the one of frame `c`, the next `sched_gsmtime_execute` is the one of frame `c + 1`: the request
must be for `F ≥ c + 3`, which is what `l1a_rach_req` does with `offset += 3`.) -/
theorem accepted_fires_exactly_once (env : Env) (st st' : Sys) (si : List Item) (F p3 fn0 : Nat)
    (frs : List Frame) (outs : List FrameOut) (hinv : GInv st.g) (hroom : st.g.active.length < 16)
    (hfn0 : fn0 < 2715648) (hF : F < 2715648) (hahead : 2 ≤ (F + 2715648 - fn0) % 2715648)
    (hlen : frs.length + 1 ≤ (F + 2715648 - fn0) % 2715648)
    (hstep : SteppingMod fn0 frs) (hno : ∀ fr ∈ frs, FrameNoGexec fr)
    (hrun : runFrames env ⟨(sched st.g si F p3).1, st.s⟩ frs = .ok (st', outs)) :
    (sched st.g si F p3).2 = 0 ∧
    ∃ ev ∈ (sched st.g si F p3).1.active, ev.si = si ∧ ev.fn = F ∧ ev.p3 = u16 p3 ∧
      ∀ i o, outs[i]? = some o →
        (o.calls.filter (fun c => c.slot = ev.slot)).length =
          (if i + 2 = (F + 2715648 - fn0) % 2715648 then 1 else 0) ∧
        ∀ c ∈ o.calls, c.slot = ev.slot → c.off = 1 ∧ c.si = si ∧ c.p3 = u16 p3 := by
  obtain ⟨ev, h0, h1, h2, h3, _, _, hperm, _, _⟩ := sched_accepts st.g si F p3 hinv hroom
  have hfn : ev.fn = F := by rw [h2]; simp only [u32]; omega
  have hmem : ev ∈ (sched st.g si F p3).1.active := hperm.mem_iff.mpr (List.mem_cons_self ..)
  refine ⟨h0, ev, hmem, h1, hfn, h3, ?_⟩
  intro i o ho
  obtain ⟨r1, r2⟩ := wrap_full env ⟨(sched st.g si F p3).1, st.s⟩ st' ev fn0 frs outs
    (sched_inv st.g si F p3 hinv) hmem hfn0 (by rw [hfn]; exact hF) (by rw [hfn]; exact hahead) hstep hno
    (by rw [hfn]; exact hlen) hrun i o ho
  rw [hfn] at r1
  refine ⟨r1, ?_⟩
  intro c hc hs
  obtain ⟨_, c1, c2, c3⟩ := r2 c hc hs
  exact ⟨by rw [c1]; exact frameOffset_eq, by rw [c2, h1], by rw [c3, h3]⟩

/-- **A request that comes too late does not fire — and blocks nothing.**  An event for frame `F` that is
pending when the next `sched_gsmtime_execute` is already the one of frame `F` or `F − 1`
(`d = (F − fn0) mod GSM_MAX_FN ∈ {0, 1}`): in the next `GSM_MAX_FN − 2 + d` frame interrupts no call is made for
it, and it stays pending (its slot stays taken) — until `sched_gsmtime_reset()`.  That other events fire on time
in spite of it is `due_event_fires` / `wrap_full`, which hold for every state satisfying the invariant. -/
theorem stale_never_fires (env : Env) (st st' : Sys) (ev : Event) (fn0 : Nat) (frs : List Frame)
    (outs : List FrameOut) (hinv : GInv st.g) (hev : ev ∈ st.g.active) (hfn0 : fn0 < 2715648)
    (hF : ev.fn < 2715648) (hlate : (ev.fn + 2715648 - fn0) % 2715648 < 2)
    (hlen : frs.length + 2 ≤ (ev.fn + 2715648 - fn0) % 2715648 + 2715648) (hstep : SteppingMod fn0 frs)
    (hno : ∀ fr ∈ frs, FrameNoGexec fr) (hrun : runFrames env st frs = .ok (st', outs)) :
    (∀ o ∈ outs, o.calls.filter (fun c => c.slot = ev.slot) = []) ∧ ev ∈ st'.g.active ∧
      st'.g.active.length ≥ 1 := by
  have hmiss : ∀ fr ∈ frs, FrameNoGexec fr ∧ target fr.fn ≠ ev.fn := by
    intro fr hfr
    obtain ⟨i, hi⟩ := List.mem_iff_getElem?.mp hfr
    have hlt := TdmaSched.lt_of_get? _ _ _ hi
    rw [hstep i fr hi, target_mod _ (by omega)]
    exact ⟨hno fr hfr, by omega⟩
  obtain ⟨_, h2, h3⟩ := frames_miss env frs st st' outs ev hinv hev hmiss hrun
  exact ⟨h3, h2, List.length_pos_of_mem h2⟩

/-- **A stale event fires one hyperframe later.**  The event of `stale_never_fires`, if no reset removes it, is
handed over after `GSM_MAX_FN − 2 + d` frame interrupts (3 h 28 min) — in frame `(F − 2) mod GSM_MAX_FN` of the
next hyperframe. -/
theorem stale_fires_next_hyperframe (env : Env) (st st' : Sys) (ev : Event) (fn0 : Nat) (frs : List Frame)
    (outs : List FrameOut) (hinv : GInv st.g) (hev : ev ∈ st.g.active) (hfn0 : fn0 < 2715648)
    (hF : ev.fn < 2715648)
    (hd : (ev.fn + 2715648 - fn0) % 2715648 < 2) (hstep : SteppingMod fn0 frs)
    (hno : ∀ fr ∈ frs, FrameNoGexec fr)
    (hlen : frs.length + 1 ≤ (ev.fn + 2715648 - fn0) % 2715648 + 2715648)
    (hrun : runFrames env st frs = .ok (st', outs)) :
    ∀ i o, outs[i]? = some o →
      (o.calls.filter (fun c => c.slot = ev.slot)).length =
        if i + 2 = (ev.fn + 2715648 - fn0) % 2715648 + 2715648 then 1 else 0 := by
  have hlen' : outs.length = frs.length := runFrames_length env _ _ _ _ hrun
  intro i o ho
  have hi : i < frs.length := by rw [← hlen']; exact TdmaSched.lt_of_get? _ _ _ ho
  have hfr : frs[i]? = some frs[i] := by simp [hi]
  have htgt : ∀ j, j < frs.length → (target ((fn0 + j) % 2715648) = ev.fn ↔
      j + 2 = (ev.fn + 2715648 - fn0) % 2715648 + 2715648) := by
    intro j hj
    rw [target_mod _ (by omega)]
    omega
  obtain ⟨r1, r2⟩ := fires_at_first_hit env frs st st' outs ev hinv hev hno hrun i _ o hfr ho
    (by
      intro j fr' hj hfr'
      rw [hstep j fr' hfr']
      intro hh
      have := (htgt j (by omega)).mp hh
      omega)
  rw [hstep i _ hfr] at r1 r2
  by_cases hh : i + 2 = (ev.fn + 2715648 - fn0) % 2715648 + 2715648
  · obtain ⟨c, hc1, _⟩ := r2 ((htgt i hi).mpr hh)
    simp only [hh, if_true, hc1, List.length_singleton]
  · have hnil := r1 (fun h => hh ((htgt i hi).mp h))
    simp only [hh, if_false, hnil, List.length_nil]

/-- **Frame numbers outside the hyperframe.**  `fn_sched` is always below `GSM_MAX_FN`: an event accepted for a
frame number `≥ GSM_MAX_FN` (no caller in the firmware passes one) is never handed over, whatever frame numbers
`sched_gsmtime_execute` is called with, and keeps its slot until a reset.  (For `fn ≥ 2^32 − 2` — outside the
firmware's range as well — the sum `fn + SCHEDULE_AHEAD` wraps at 32 bit before it is reduced: `target`.) -/
theorem out_of_range_never_fires (env : Env) (st st' : Sys) (ev : Event) (frs : List Frame)
    (outs : List FrameOut) (hinv : GInv st.g) (hev : ev ∈ st.g.active) (hF : 2715648 ≤ ev.fn)
    (hno : ∀ fr ∈ frs, FrameNoGexec fr) (hrun : runFrames env st frs = .ok (st', outs)) :
    (∀ o ∈ outs, o.calls.filter (fun c => c.slot = ev.slot) = []) ∧ ev ∈ st'.g.active := by
  obtain ⟨_, h2, h3⟩ := frames_miss env frs st st' outs ev hinv hev
    (fun fr hfr => ⟨hno fr hfr, by have := target_lt fr.fn; omega⟩) hrun
  exact ⟨h3, h2⟩

/-- every callback reports success and makes no scheduler call from inside -/
def env0 : Env := ⟨fun _ _ _ _ => 0, []⟩

/-- an item set of one item -/
def set1 (id p1 : Nat) : List Item := [⟨.fn id, p1, 0, 0, 0, 0⟩, ⟨.endSet, 0, 0, 0, 0, 0⟩]

/-! ### reset -/

/-- **After `sched_gsmtime_reset()` all 16 slots are free and nothing is pending**; the invariant holds. -/
theorem reset_frees_all (g : GState) (h : GInv g) :
    (reset g).active = [] ∧ (reset g).inactive.length = 16 ∧ GInv (reset g) :=
  ⟨reset_active g, reset_free g h, reset_inv g h⟩

/-- **After `sched_gsmtime_reset()` no event fires**: in every history that starts with the reset and contains
no new request (`sched_gsmtime`), whatever frame numbers `sched_gsmtime_execute` is called with, no
`tdma_schedule_set` call is made and every `sched_gsmtime_execute` returns 0. -/
theorem nothing_fires_after_reset (env : Env) : ∀ (ops : List SOp) (st st' : Sys) (outs : List SOut),
    GInv st.g → st.g.active = [] → (∀ op ∈ ops, ∀ si fn p3, op ≠ .gsched si fn p3) →
    srun env st ops = .ok (st', outs) →
    st'.g.active = [] ∧ ∀ op o, (op, o) ∈ ops.zip outs → o.calls = [] ∧ (∀ fn, op = .gexec fn → o.rc = 0)
  | [], st, st', outs, _, hnil, _, h => by
    simp only [srun, Except.ok.injEq, Prod.mk.injEq] at h
    rw [← h.1]
    exact ⟨hnil, by simp⟩
  | op :: ops, st, st', outs, hinv, hnil, hno, h => by
    obtain ⟨st1, o, os, h1, h2, h3⟩ := srun_cons_ok env st st' op ops outs h
    obtain ⟨hg, hc⟩ := sstep_g env st st1 op o hinv h1
    have hi1 : GInv st1.g := by rw [hg]; exact gstepG_inv st.g op hinv
    have hnil1 : st1.g.active = [] ∧ o.calls = [] ∧ (∀ fn, op = .gexec fn → o.rc = 0) := by
      cases op with
      | gsched si fn p3 => exact absurd rfl (hno _ (List.mem_cons_self ..) si fn p3)
      | gexec fn =>
        simp only [gstepG, gexecG, hnil, List.filter_nil] at hg hc
        refine ⟨by rw [hg], hc.nil_left, ?_⟩
        intro fn' _
        simp only [sstep] at h1
        obtain ⟨⟨g1, s1, num, cs⟩, he, hr⟩ := bind_ok h1
        simp only [pure, Except.pure, Except.ok.injEq, Prod.mk.injEq] at hr
        obtain ⟨_, _, hnum, _⟩ := execute_g st.g g1 st.s s1 fn num cs hinv he
        simp only [gexecG, hnil, List.filter_nil, List.length_nil] at hnum
        rw [← hr.2]; exact hnum
      | greset =>
        simp only [gstepG] at hg hc
        exact ⟨by rw [hg]; rfl, hc.nil_left, by intro fn hh; simp at hh⟩
      | tdma top =>
        simp only [gstepG] at hg hc
        exact ⟨by rw [hg]; exact hnil, hc.nil_left, by intro fn hh; simp at hh⟩
    obtain ⟨r1, r2⟩ := nothing_fires_after_reset env ops st1 st' os hi1 hnil1.1
      (fun x hx => hno x (List.mem_cons_of_mem _ hx)) h2
    refine ⟨r1, ?_⟩
    intro op' o' hmem
    rw [h3] at hmem
    simp only [List.zip_cons_cons, List.mem_cons, Prod.mk.injEq] at hmem
    rcases hmem with ⟨rfl, rfl⟩ | hmem
    · exact hnil1.2
    · exact r2 op' o' hmem

/-! ### the two schedulers together -/

/-- **No fault.**  From a state in which both schedulers are well-formed and every pending event has an
admissible item set (`Safe`; the state after `sched_gsmtime_init()` and a zeroed TDMA scheduler is one), every
sequence of frame interrupts with admissible requests runs without an out-of-bounds access or a NULL call, and
ends in such a state — also when callbacks schedule from inside `tdma_sched_execute()`, as long as the calls
they make are admissible (`EnvOk`). -/
theorem frames_safe (env : Env) (henv : EnvOk env) (frs : List Frame) (st : Sys) (h : Safe env st)
    (hfrs : ∀ fr ∈ frs, FrameSafe env fr) :
    ∃ st' outs, runFrames env st frs = .ok (st', outs) ∧ Safe env st' :=
  runFrames_safe env henv frs st h hfrs

theorem init_safe (env : Env) (cur : Nat) (h : cur < 25) : Safe env ⟨init, TdmaSched.init cur⟩ :=
  ⟨init_inv.1, TdmaSched.init_inv env cur h, by intro e he; simp [init] at he⟩

/-- **The set of an event for frame `F` runs from frame `F − SCHEDULE_LATENCY` on** (composition with the TDMA
scheduler theorems of C08).  Callbacks do not schedule from inside `tdma_sched_execute()` (`NoReentry env`:
explicit hypothesis of this theorem; the item sets handed over by `sched_gsmtime_execute` in the firmware —
`rach_sched_set_ul`, `freq_sched_set` — are of that kind).  `ev` is pending; `x` is an item of the k-th frame of its item set (with the
event's `p3`), distinguishable: pending nowhere in the TDMA scheduler, in no other pending event's set, not
scheduled by any request of the frames considered (`FrameTraffic`).  Frames `frs1` (in none of which
`target fn = ev.fn`), then the frame `last` with `target last.fn = ev.fn` (frame `F − 2`), then any frames `frs2`
(frames `F − 1`, `F`, …): the whole sequence runs without fault; `x` does not run in `frs1` nor in `last`; in `last`
exactly one call `c = tdma_schedule_set(1, ev.si, ev.p3)` is made for the event; and unless that call reported
a bucket overflow (`c.rc = −1`, which `sched_gsmtime_execute` ignores), `x` runs exactly once: in the
`tdma_sched_execute()` of the k-th frame of `frs2` — frame `F − 1 + k` — and in no other. -/
theorem event_set_runs_at (env : Env) (hne : NoReentry env) (st : Sys) (ev : Event) (x : AItem Cb) (k : Nat) (f : List (AItem Cb))
    (frs1 : List Frame) (last : Frame) (frs2 : List Frame)
    (hsafe : Safe env st) (hev : ev ∈ st.g.active)
    (hfresh : ∀ d, d < 25 → x ∉ abs st.s d)
    (hclean : ∀ e ∈ st.g.active, e ≠ ev → x ∉ (framesOf e.p3 e.si).flatten)
    (hdepth : 1 + markers ev.si < 25) (hk : (framesOf ev.p3 ev.si)[k]? = some f) (hx1 : f.count x = 1)
    (hx0 : ∀ k' f', k' ≠ k → (framesOf ev.p3 ev.si)[k']? = some f' → x ∉ f')
    (h1 : ∀ fr ∈ frs1, FrameTraffic env x fr ∧ target fr.fn ≠ ev.fn)
    (hl : FrameTraffic env x last ∧ target last.fn = ev.fn)
    (h2 : ∀ fr ∈ frs2, FrameTraffic env x fr) :
    ∃ st' outs1 o outs2 c, runFrames env st (frs1 ++ [last] ++ frs2) = .ok (st', outs1 ++ [o] ++ outs2) ∧
      outs1.length = frs1.length ∧
      (∀ o' ∈ outs1, ranCount x o'.exec = 0 ∧ o'.calls.filter (fun c => c.slot = ev.slot) = []) ∧
      ranCount x o.exec = 0 ∧ o.calls.filter (fun c => c.slot = ev.slot) = [c] ∧ CallFor ev c ∧
      (c.rc ≠ -1 → ∀ j o', outs2[j]? = some o' → ranCount x o'.exec = if j = k then 1 else 0) := by
  -- the run exists
  obtain ⟨st', outs, hrun, _⟩ := runFrames_safe env (TdmaSched.noReentry_envOk env hne) (frs1 ++ [last] ++ frs2) st hsafe (by
    intro fr hfr
    simp only [List.mem_append, List.mem_singleton] at hfr
    rcases hfr with (hfr | rfl) | hfr
    · exact (h1 fr hfr).1.safe
    · exact hl.1.safe
    · exact (h2 fr hfr).safe)
  obtain ⟨st2, o12, outs2, hr12, hr3, e3⟩ := runFrames_append env (frs1 ++ [last]) frs2 st st' outs hrun
  obtain ⟨st1, outs1, ol, hr1, hr2, e2⟩ := runFrames_append env frs1 [last] st st2 o12 hr12
  obtain ⟨st2', o, os, hl1, hl2, e1⟩ := runFrames_cons_ok env st1 st2 last [] ol hr2
  simp only [runFrames, Except.ok.injEq, Prod.mk.injEq] at hl2
  obtain ⟨hl2a, hl2b⟩ := hl2
  subst hl2a
  -- before
  have ht0 : Tracked env x st none (some ev) :=
    ⟨hsafe, ⟨by simp, fun e he => by simpa using List.count_eq_zero.mpr (hfresh e he)⟩,
     fun e he hne => hclean e he (fun hh => hne (by rw [hh]))⟩
  obtain ⟨t1, ev1, c1⟩ := frames_before env hne x ev frs1 st st1 outs1 ht0 hev h1 hr1
  obtain ⟨_, _, m1⟩ := frames_miss env frs1 st st1 outs1 ev hsafe.1 hev
    (fun fr hfr => ⟨(h1 fr hfr).1.noGexec, (h1 fr hfr).2⟩) hr1
  -- the frame in which the event is handed over
  have hdepth' : frameOffset + markers ev.si < 25 := by rw [frameOffset_eq]; exact hdepth
  obtain ⟨s2, cl2, c2, c, hc1, hc2, hc3⟩ := l1Sync_hit env hne x st1 st2' last o ev k f t1 hl.1 ev1 hl.2 hdepth' hk hx1
    hx0 hl1
  refine ⟨st', outs1, o, outs2, c, ?_, runFrames_length env _ _ _ _ hr1, fun o' ho' => ⟨c1 o' ho', m1 o' ho'⟩, c2, hc1, hc2, ?_⟩
  · rw [hrun, e3, e2, e1, ← hl2b]
  · intro hrc j o' ho'
    have t3 : Tracked env x st2' (some k) none := ⟨s2, hc3 hrc, fun e he _ => cl2 e he⟩
    exact frames_countdown env hne x frs2 st2' st' outs2 (some k) t3 h2 hr3 j o' ho' |> fun h => by
      rw [h]
      apply Spec.TdmaSched.ite_iff
      simp only [Option.some.injEq]
      exact eq_comm

/-- **The same with frame numbers.**  Frames `fn0, fn0 + 1, …` (stepping by one modulo `GSM_MAX_FN`), an event
for frame `F`, `d = (F − fn0) mod GSM_MAX_FN ≥ 2` frames ahead, pending at the start, callbacks that do not
schedule from inside (`NoReentry env`): the sequence runs without
fault, the event is handed over in the interrupt of frame `(F − 2) mod GSM_MAX_FN` (index `d − 2`) by exactly one
call `c`, and unless `c.rc = −1` the item `x` of the k-th frame of its set runs exactly once: in the
`tdma_sched_execute()` of the interrupt with index `d − 1 + k` — frame `(F − 1 + k) mod GSM_MAX_FN`, i.e.
`F − SCHEDULE_LATENCY` for the first frame of the set — in no other. -/
theorem event_set_runs_in_frame (env : Env) (hne : NoReentry env) (st : Sys) (ev : Event) (x : AItem Cb) (k : Nat)
    (f : List (AItem Cb)) (fn0 : Nat) (frs : List Frame)
    (hsafe : Safe env st) (hev : ev ∈ st.g.active)
    (hfresh : ∀ d, d < 25 → x ∉ abs st.s d)
    (hclean : ∀ e ∈ st.g.active, e ≠ ev → x ∉ (framesOf e.p3 e.si).flatten)
    (hdepth : 1 + markers ev.si < 25) (hk : (framesOf ev.p3 ev.si)[k]? = some f) (hx1 : f.count x = 1)
    (hx0 : ∀ k' f', k' ≠ k → (framesOf ev.p3 ev.si)[k']? = some f' → x ∉ f')
    (hfn0 : fn0 < 2715648) (hF : ev.fn < 2715648) (hahead : 2 ≤ (ev.fn + 2715648 - fn0) % 2715648)
    (hlen : (ev.fn + 2715648 - fn0) % 2715648 - 2 < frs.length)
    (hstep : SteppingMod fn0 frs) (htr : ∀ fr ∈ frs, FrameTraffic env x fr) :
    ∃ st' outs o c, runFrames env st frs = .ok (st', outs) ∧
      outs[(ev.fn + 2715648 - fn0) % 2715648 - 2]? = some o ∧
      o.calls.filter (fun c => c.slot = ev.slot) = [c] ∧ CallFor ev c ∧
      (c.rc ≠ -1 → ∀ i o', outs[i]? = some o' →
        ranCount x o'.exec = if i + 1 = (ev.fn + 2715648 - fn0) % 2715648 + k then 1 else 0) := by
  have hn := hlen
  generalize hnd : (ev.fn + 2715648 - fn0) % 2715648 - 2 = n at hn
  have hsplit : frs = frs.take n ++ [frs[n]] ++ frs.drop (n + 1) := by
    rw [List.append_assoc, List.singleton_append, ← List.drop_eq_getElem_cons hn, List.take_append_drop]
  have htake : ∀ fr ∈ frs.take n, FrameTraffic env x fr ∧ target fr.fn ≠ ev.fn := by
    intro fr hfr
    refine ⟨htr fr (List.mem_of_mem_take hfr), ?_⟩
    obtain ⟨i, hi⟩ := List.mem_iff_getElem?.mp hfr
    have hil : i < n := by
      have := TdmaSched.lt_of_get? _ _ _ hi
      simp only [List.length_take] at this
      omega
    rw [List.getElem?_take_of_lt hil] at hi
    rw [hstep i fr hi, target_mod _ (by omega)]
    omega
  have hlast : FrameTraffic env x frs[n] ∧ target frs[n].fn = ev.fn := by
    refine ⟨htr _ (List.getElem_mem hn), ?_⟩
    rw [hstep n frs[n] (by simp [hn]), target_mod _ (by omega)]
    omega
  obtain ⟨st', outs1, o, outs2, c, hrun, hl1, hb, hc0, hc1, hc2, hc3⟩ :=
    event_set_runs_at env hne st ev x k f (frs.take n) frs[n] (frs.drop (n + 1)) hsafe hev hfresh hclean hdepth hk
      hx1 hx0 htake hlast (fun fr hfr => htr fr (List.mem_of_mem_drop hfr))
  rw [← hsplit] at hrun
  have hl1' : outs1.length = n := by
    rw [hl1, List.length_take]; omega
  refine ⟨st', outs1 ++ [o] ++ outs2, o, c, hrun, ?_, hc1, hc2, ?_⟩
  · rw [List.append_assoc, List.getElem?_append_right (by omega)]
    simp [hl1']
  · intro hrc i o' ho'
    by_cases h1 : i < n
    · rw [List.append_assoc, List.getElem?_append_left (by omega)] at ho'
      have := (hb o' (List.mem_of_getElem? ho')).1
      rw [this]
      have : ¬ (i + 1 = (ev.fn + 2715648 - fn0) % 2715648 + k) := by omega
      simp [this]
    · by_cases h2 : i = n
      · subst h2
        rw [List.append_assoc, List.getElem?_append_right (by omega)] at ho'
        simp only [hl1', Nat.sub_self, List.singleton_append, List.getElem?_cons_zero, Option.some.injEq] at ho'
        rw [← ho', hc0]
        have : ¬ (i + 1 = (ev.fn + 2715648 - fn0) % 2715648 + k) := by omega
        simp [this]
      · rw [List.getElem?_append_right (by simp [hl1']; omega)] at ho'
        simp only [List.length_append, hl1', List.length_singleton] at ho'
        rw [hc3 hrc (i - (n + 1)) o' ho']
        apply Spec.TdmaSched.ite_iff
        omega

/-- A frame interrupt is the history `pre ; tdma_sched_execute ; mid ; sched_gsmtime_execute(fn) ;
tdma_sched_advance` of single operations — the form in which frames are run against the real code. -/
theorem frame_is_history (env : Env) (st : Sys) (fr : Frame) :
    srun env st (frameOps fr) =
      match l1Sync env st fr with
      | .error f => .error f
      | .ok (st', o) => .ok (st', flatOut o) :=
  l1Sync_eq_srun env st fr

/-! ### non-vacuity: the hypotheses are satisfiable by non-trivial values, and the conclusions are what the
model computes (each history below was also run on the real C code: same observations) -/

/-- a frame interrupt without requests -/
def fr (fn : Nat) : Frame := ⟨fn, [], []⟩
/-- consecutive frame numbers modulo `GSM_MAX_FN` -/
def frames (fn0 n : Nat) : List Frame := (List.range n).map (fun i => fr ((fn0 + i) % 2715648))

/-- a two-frame item set: callback 1 (p1 = 11) in the first frame, callback 2 (p1 = 12) in the second -/
def set2 : List Item :=
  [⟨.fn 1, 11, 0, 0, 0, 0⟩, ⟨.null, 0, 0, 0, 0, 0⟩, ⟨.fn 2, 12, 0, 0, 5, 0⟩, ⟨.endSet, 0, 0, 0, 0, 0⟩]

/-- what a sequence of frame interrupts shows: per frame the `p1` of the callbacks run by
`tdma_sched_execute`, the result of `sched_gsmtime_execute` and the calls it made as (slot, p3, result) -/
structure FrameObs where
  ran : List Nat
  num : Int
  calls : List (Nat × Nat × Int)
  deriving DecidableEq, Repr

def obs (env : Env) (st : Sys) (frs : List Frame) : Option (List FrameObs) :=
  (runFrames env st frs).toOption.map
    (fun r => r.2.map (fun o => ⟨o.exec.ran.map (·.p1), o.num, o.calls.map (fun c => (c.slot, c.p3, c.rc))⟩))

/-- the state after a list of requests on the initial state -/
def after (reqs : List (List Item × Nat × Nat)) (cur : Nat) : Sys :=
  ⟨reqs.foldl (fun g r => (sched g r.1 r.2.1 r.2.2).1) init, TdmaSched.init cur⟩

-- a request for frame 105 while frame 100 is next: handed over in frame 103 (slot 15, p3 = 9, rc = 1 frame
-- marker), its first frame runs in 104, its second in 105
example : obs env0 (after [(set2, 105, 9)] 7) (frames 100 8) =
    some [⟨[], 0, []⟩, ⟨[], 0, []⟩, ⟨[], 0, []⟩, ⟨[], 1, [(15, 9, 1)]⟩, ⟨[11], 0, []⟩, ⟨[12], 0, []⟩, ⟨[], 0, []⟩,
      ⟨[], 0, []⟩] := by decide +kernel

def evEx : Event := ⟨15, set2, 105, 9⟩
def xEx : AItem Cb := ⟨.fn 2, 12, 0, 9, 5⟩

-- the hypotheses of `event_set_runs_in_frame` / `event_set_runs_at` hold for it (k = 1: second frame of the set)
example : NoReentry env0 ∧ Safe env0 (after [(set2, 105, 9)] 7) ∧ evEx ∈ (after [(set2, 105, 9)] 7).g.active ∧
    1 + markers evEx.si < 25 ∧ (framesOf evEx.p3 evEx.si)[1]? = some [xEx] ∧ [xEx].count xEx = 1 ∧
    SteppingMod 100 (frames 100 8) ∧ 2 ≤ (evEx.fn + 2715648 - 100) % 2715648 ∧
    (evEx.fn + 2715648 - 100) % 2715648 - 2 < (frames 100 8).length ∧ (∀ fr ∈ frames 100 8, FrameTraffic env0 xEx fr) ∧
    (∀ e ∈ (after [(set2, 105, 9)] 7).g.active, e ≠ evEx → xEx ∉ (framesOf e.p3 e.si).flatten) := by
  decide +kernel
example : ∀ d, d < 25 → xEx ∉ abs (after [(set2, 105, 9)] 7).s d := by decide +kernel

-- out-of-order requests (frames 7, 5, 6, 5): handed over in frame order, the two for frame 5 in request order
example : obs env0 (after [(set1 1 1, 7, 70), (set1 1 2, 5, 50), (set1 1 3, 6, 60), (set1 1 4, 5, 51)] 0) (frames 2 6) =
    some [⟨[], 0, []⟩, ⟨[], 2, [(14, 50, 0), (12, 51, 0)]⟩, ⟨[2, 4], 1, [(13, 60, 0)]⟩, ⟨[3], 1, [(15, 70, 0)]⟩,
      ⟨[1], 0, []⟩, ⟨[], 0, []⟩] := by decide +kernel

-- the pool: the 17th request is refused with -EBUSY = -16 and changes nothing
example : ((List.range 17).foldl (fun (acc : GState × List Int) k =>
      let r := sched acc.1 (set1 1 k) (50 + k % 3) k; (r.1, acc.2 ++ [r.2])) (init, [])).2 =
    List.replicate 16 0 ++ [-16] := by decide +kernel
example : let g := (after ((List.range 16).map (fun k => (set1 1 k, 50 + k % 3, k))) 0).g
    GInv g ∧ g.active.length = 16 ∧ sched g (set1 1 99) 50 99 = (g, -16) := by decide +kernel

-- too late: requests for frames 100 and 101 while frame 100 is next do not fire (not before the next hyperframe); the on-time requests for 102 and
-- 103 behind them fire (nothing is blocked); the stale events keep their slots (15, 14)
example : obs env0 (after [(set1 1 1, 100, 1), (set1 1 2, 101, 2), (set1 1 3, 102, 3), (set1 1 4, 103, 4)] 0) (frames 100 5) =
    some [⟨[], 1, [(13, 3, 0)]⟩, ⟨[3], 1, [(12, 4, 0)]⟩, ⟨[4], 0, []⟩, ⟨[], 0, []⟩, ⟨[], 0, []⟩] := by decide +kernel
example : (runFrames env0 (after [(set1 1 1, 100, 1), (set1 1 2, 101, 2), (set1 1 3, 102, 3)] 0) (frames 100 5)).toOption.map
    (fun r => r.1.g.active.map (fun e => (e.slot, e.fn))) = some [(15, 100), (14, 101)] := by decide +kernel

-- the hyperframe wrap (`wrap_full`).  A request for frame 2 made in frame 2715645 fires in frame 0 …
example : obs env0 (after [(set1 1 1, 2, 7)] 0) (frames 2715646 5) =
    some [⟨[], 0, []⟩, ⟨[], 0, []⟩, ⟨[], 1, [(15, 7, 0)]⟩, ⟨[1], 0, []⟩, ⟨[], 0, []⟩] := by decide +kernel
-- … and the requests for frames 0 and 1 fire in the frames 2715646 and 2715647 (frames 2715645, 2715646,
-- 2715647, 0, 1, …); their items run in 2715647 and 0; nothing stays pending
example : obs env0 (after [(set1 1 1, 0, 7), (set1 1 2, 1, 8)] 0) (frames 2715645 8) =
    some ([⟨[], 0, []⟩, ⟨[], 1, [(15, 7, 0)]⟩, ⟨[1], 1, [(14, 8, 0)]⟩, ⟨[2], 0, []⟩] ++
      List.replicate 4 ⟨[], 0, []⟩) := by decide +kernel
example : (runFrames env0 (after [(set1 1 1, 0, 7), (set1 1 2, 1, 8)] 0) (frames 2715645 8)).toOption.map
    (fun r => r.1.g.active.map (fun e => (e.slot, e.fn))) = some [] := by decide +kernel
-- hypotheses of `wrap_full` for F = 1, three frames ahead of 2715646 (the witness of the defect fixed by F21)
example : GInv (after [(set1 1 1, 1, 7)] 0).g ∧ (⟨15, set1 1 1, 1, 7⟩ : Event) ∈ (after [(set1 1 1, 1, 7)] 0).g.active ∧
    (1 + 2715648 - 2715646) % 2715648 = 3 ∧ SteppingMod 2715646 (frames 2715646 2) ∧
    (∀ fr ∈ frames 2715646 2, FrameNoGexec fr) := by decide +kernel
example : obs env0 (after [(set1 1 1, 1, 7)] 0) (frames 2715646 3) =
    some [⟨[], 0, []⟩, ⟨[], 1, [(15, 7, 0)]⟩, ⟨[1], 0, []⟩] := by decide +kernel

-- outside the firmware's range of frame numbers the 32-bit sum wraps before it is reduced modulo GSM_MAX_FN:
-- sched_gsmtime_execute(4294967295) hands over the event for frame 1; an event for a frame >= GSM_MAX_FN stays
example : obs env0 (after [(set1 1 1, 1, 7)] 0) [fr 4294967294, fr 4294967295, fr 0] =
    some [⟨[], 0, []⟩, ⟨[], 1, [(15, 7, 0)]⟩, ⟨[1], 0, []⟩] := by decide +kernel

-- reset: nothing fires afterwards, all 16 slots are free
example : (srun env0 (after [(set1 1 1, 5, 7), (set1 1 2, 6, 8)] 0) [.greset, .gexec 3, .gexec 4, .gexec 3]).toOption.map
    (fun r => (r.1.g.active.length, r.1.g.inactive.length, r.2.map (fun o => (o.rc, o.calls.length)))) =
    some (0, 16, [(0, 0), (0, 0), (0, 0), (0, 0)]) := by decide +kernel

-- a bucket overflow in the TDMA scheduler goes unnoticed: 9 requests for the same frame, the 9th
-- tdma_schedule_set returns -1, sched_gsmtime_execute returns 9 all the same, 8 callbacks run
example : obs env0 (after ((List.range 9).map (fun k => (set1 1 k, 50, k))) 0) (frames 48 2) =
    some [⟨[], 9, [(15, 0, 0), (14, 1, 0), (13, 2, 0), (12, 3, 0), (11, 4, 0), (10, 5, 0), (9, 6, 0), (8, 7, 0),
      (7, 8, -1)]⟩, ⟨[0, 1, 2, 3, 4, 5, 6, 7], 0, []⟩] := by decide +kernel

end OsmoVerif.Props.C08Gsmtime
