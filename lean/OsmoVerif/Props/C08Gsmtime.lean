import OsmoVerif.Lemmas.SchedGsmtime

namespace OsmoVerif.Props.C08Gsmtime
open OsmoVerif OsmoVerif.SchedGsmtime

theorem gen_consts : Gen.sgNumEvents = 16 := by decide

end OsmoVerif.Props.C08Gsmtime
