/-
C07 — Frequency hopping follows 3GPP TS 45.002 §6.2.3 in the simulator and in the firmware.
Property theorems only.  Spec: `OsmoVerif.Spec.Hopping` (written from the standard, own
RNTABLE copy); models: `OsmoVerif.Model.Hopping` (Python `HoppingParams`, `Transceiver.get_*_freq`;
C `rfch_hop_seq_gen` reached through `rfch_get_params`); tables: `OsmoVerif.Gen.Hopping`
(regenerated from the tree on every run).
-/
import OsmoVerif.Lemmas.Hopping

namespace OsmoVerif.Props.C07
open OsmoVerif OsmoVerif.Hopping OsmoVerif.GsmTime

/-- Both RNTABLE copies of the code base (Python list, C array as the compiler sees it)
are the table of the standard. -/
theorem gen_tables_eq_spec :
    Gen.pyRntable = Spec.Hopping.rntable ∧ Gen.fwRnTable = Spec.Hopping.rntable := by
  decide

/-- Layout facts of the firmware the model relies on: `rn_table` holds octets, the
mobile allocation array of `struct l1s_h1` has room for the 64 channels of the property. -/
theorem fw_layout : Gen.fwRnTableElemSize = 1 ∧ Gen.fwMaCapacity = 64 := by
  decide

/-- `pow_nbin_mask(n)` (C) is `2^NBIN - 1` with `NBIN = ⌊log2 n⌋ + 1`. -/
theorem pnm_is_pow (n : Nat) (h1 : 1 ≤ n) (h2 : n ≤ 64) :
    powNbinMask n + 1 = 2 ^ (Nat.log2 n + 1) := by
  have h := pnm_core n (by omega) h1
  have : 0 < 2 ^ (Nat.log2 n + 1) := Nat.pow_pos (by decide)
  omega

/-- `HoppingParams.__init__` accepts every HSN 0..63 with every mobile allocation of 1..64
channels (any MAIO) and its `_pnm` is `2^NBIN - 1`. -/
theorem py_pnm_is_pow {α : Type} (hsn : Nat) (maio : Int) (ma : List α)
    (hh : hsn < 64) (h1 : 1 ≤ ma.length) (h2 : ma.length ≤ 64) :
    ∃ hp, pyInit (hsn : Int) maio ma = .ok hp ∧ hp.hsn = hsn ∧ hp.maio = maio ∧ hp.ma = ma ∧
      hp.pnm + 1 = 2 ^ (Nat.log2 ma.length + 1) :=
  ⟨_, pyInit_ok hsn maio ma hh (by omega), rfl, rfl, rfl, pnm_is_pow ma.length h1 h2⟩

/-- `HoppingParams.__init__` succeeds exactly for a non-empty mobile allocation and an HSN in
`range(64)`; everything else is a `ValueError` (never another exception). -/
theorem py_init_iff {α : Type} (hsn maio : Int) (ma : List α) :
    (ma ≠ [] ∧ 0 ≤ hsn ∧ hsn < 64 →
      pyInit hsn maio ma = .ok ⟨hsn, maio, ma, powNbinMask ma.length⟩) ∧
    (¬ (ma ≠ [] ∧ 0 ≤ hsn ∧ hsn < 64) → pyInit hsn maio ma = .error .ValueError) := by
  have hl : ma.length = 0 ↔ ma = [] := List.length_eq_zero_iff
  constructor
  · intro ⟨hne, h0, h64⟩
    have hn0 : ma.length ≠ 0 := fun h => hne (hl.1 h)
    have hr : ¬ ¬ (0 ≤ hsn ∧ hsn < 64) := fun h => h ⟨h0, h64⟩
    simp only [pyInit, hn0, if_false, if_neg hr, pyPnm_eq]
  · intro h
    by_cases hn0 : ma.length = 0
    · simp only [pyInit, hn0, if_true]
    · have hr : ¬ (0 ≤ hsn ∧ hsn < 64) := fun hr => h ⟨fun e => hn0 (hl.2 e), hr⟩
      simp only [pyInit, hn0, if_false, hr, not_false_eq_true, if_true]

/-- `resolve` never raises on an object built by `__init__`: for every HSN/MAIO/MA the
constructor accepts (any MAIO, any non-empty MA — also longer than 64) and every frame number it
returns an entry of the mobile allocation.  (Needs only the *length* of the regenerated RNTABLE.) -/
theorem py_resolve_total {α : Type} (hsn maio : Int) (ma : List α) (hp : HoppingParams α)
    (h : pyInit hsn maio ma = .ok hp) (fn : Nat) :
    ∃ v, v ∈ ma ∧ hp.resolve fn = .ok v := by
  obtain ⟨hn, h0, h64, e1, e2, e3, _⟩ := pyInit_inv hsn maio ma hp h
  obtain ⟨k, hk⟩ := Int.eq_ofNat_of_zero_le h0
  subst hk
  obtain ⟨hsn', maio', ma', pnm⟩ := hp
  simp only at e1 e2 e3
  subst e1 e2 e3
  exact py_resolve_total_aux k maio' ma' pnm fn (by omega) hn (by decide)

/-- Masking with `pow_nbin_mask(n)` is reduction modulo `2^NBIN` (what `M'` and `T'` need). -/
theorem mask_is_mod (x n : Nat) (h1 : 1 ≤ n) (h2 : n ≤ 64) :
    x &&& powNbinMask n = x % 2 ^ Spec.Hopping.nbin n :=
  and_powNbinMask x n h1 (by omega)

/-- `t1 & 63` is `T1R = T1 mod 64`, for every frame number (also beyond the hyperframe,
where Python's `t1` is not reduced modulo 2048). -/
theorem t1r_is_and (fn : Nat) : (fn / (26 * 51)) &&& 63 = Spec.Hopping.t1r fn := by
  rw [and_63, t1r_eq]

/-- The table address `(HSN xor T1R) + T3` never leaves the 114-entry table
(`HSN xor T1R ≤ 63`, `T3 ≤ 50`). -/
theorem rn_idx_in_bounds (hsn fn : Nat) (hh : hsn < 64) :
    (hsn ^^^ Spec.Hopping.t1r fn) ≤ 63 ∧ Spec.Hopping.t3 fn ≤ 50 ∧
    (hsn ^^^ Spec.Hopping.t1r fn) + Spec.Hopping.t3 fn ≤ 113 ∧
    (hsn ^^^ Spec.Hopping.t1r fn) + Spec.Hopping.t3 fn < Gen.pyRntable.length ∧
    (hsn ^^^ Spec.Hopping.t1r fn) + Spec.Hopping.t3 fn < Gen.fwRnTable.length := by
  have hx : hsn ^^^ Spec.Hopping.t1r fn < 64 := by
    rw [t1r_eq]; exact xor_lt_64 hh (Nat.mod_lt _ (by decide))
  have ht : Spec.Hopping.t3 fn < 51 := Nat.mod_lt _ (by decide)
  have l1 : Gen.pyRntable.length = 114 := by decide
  have l2 : Gen.fwRnTable.length = 114 := by decide
  omega

/-- The standard's algorithm is defined on the whole domain of the property and yields an
index into the mobile allocation. -/
theorem spec_mai_defined (hsn maio n fn : Nat) (hh : hsn < 64) (hn : 1 ≤ n) :
    ∃ i, Spec.Hopping.mai hsn maio n fn = some i ∧ i < n := by
  rw [spec_mai hsn maio n fn hh hn]
  refine ⟨_, rfl, ?_⟩
  split <;> exact Nat.mod_lt _ (by omega)

/-- **Simulator.** For every HSN 0..63, every MAIO, every mobile allocation of 1..64 channels
and every frame number, `HoppingParams(hsn, maio, ma).resolve(fn)` returns `MA[MAI]` with MAI
computed by the standard's algorithm.  (No bound on `fn` is needed: `t1 & 63` equals `T1R`
for every natural `fn`.) -/
theorem py_resolve_spec {α : Type} (hsn maio fn : Nat) (ma : List α)
    (hh : hsn < 64) (h1 : 1 ≤ ma.length) (h2 : ma.length ≤ 64) :
    ∃ v, Spec.Hopping.select ma hsn maio fn = some v ∧
      pyResolve (hsn : Int) (maio : Int) ma fn = .ok v := by
  obtain ⟨i, hi, hs, hp⟩ := py_resolve_closed hsn maio fn ma hh h1 h2 gen_tables_eq_spec.1
  exact ⟨ma[i], by simp only [Spec.Hopping.select, hs, List.getElem?_eq_getElem hi], hp⟩

/-- **Firmware.** With a hopping dedicated channel `(hsn, maio, n = |MA|)` whose ARFCN array
starts with the mobile allocation (`pad` = the unused rest of `ma[64]`), `gsm_fn2gsmtime`
followed by `rfch_get_params` stores `MA[MAI]` to `*arfcn_p`. -/
theorem fw_hop_spec (hsn maio fn : Nat) (ma pad : List Nat)
    (hh : hsn < 64) (hm : maio < 64) (h1 : 1 ≤ ma.length) (h2 : ma.length ≤ 64)
    (hu : ∀ a ∈ ma ++ pad, a < 65536) (hf : fn < 2715648) :
    ∃ v, Spec.Hopping.select ma hsn maio fn = some v ∧
      fwHop hsn maio ma.length (ma ++ pad) fn = .ok v := by
  obtain ⟨i, hi, hs, hp⟩ := fw_hop_closed hsn maio ma.length fn (ma ++ pad) hh (by omega) h1 h2
    (by simp only [List.length_append]; omega) hu hf gen_tables_eq_spec.2
  obtain ⟨j, hj, hlt⟩ := spec_mai_defined hsn maio ma.length fn hh h1
  have hij : i = j := by rw [hs] at hj; exact Option.some.inj hj
  subst hij
  refine ⟨ma[i], by simp only [Spec.Hopping.select, hs, List.getElem?_eq_getElem hlt], ?_⟩
  rw [hp, List.getElem_append_left hlt]

/-- **Simulator = firmware.** For the same `(HSN, MAIO, MA, FN)` the firmware selects the
ARFCN `v` and the simulator the entry `g v` of its own mobile allocation `MA.map g`
(`g` = ARFCN ↦ (Rx, Tx) frequency pair, or the identity): the same channel. -/
theorem py_eq_fw {α : Type} (g : Nat → α) (hsn maio fn : Nat) (ma pad : List Nat)
    (hh : hsn < 64) (hm : maio < 64) (h1 : 1 ≤ ma.length) (h2 : ma.length ≤ 64)
    (hu : ∀ a ∈ ma ++ pad, a < 65536) (hf : fn < 2715648) :
    ∃ v, fwHop hsn maio ma.length (ma ++ pad) fn = .ok v ∧
      pyResolve (hsn : Int) (maio : Int) (ma.map g) fn = .ok (g v) := by
  obtain ⟨v, hs, hfw⟩ := fw_hop_spec hsn maio fn ma pad hh hm h1 h2 hu hf
  obtain ⟨w, hs', hpy⟩ := py_resolve_spec hsn maio fn (ma.map g) hh
    (by simpa only [List.length_map] using h1) (by simpa only [List.length_map] using h2)
  refine ⟨v, hfw, ?_⟩
  rw [hpy]
  simp only [Spec.Hopping.select, List.length_map] at hs hs'
  obtain ⟨i, hi, _⟩ := spec_mai_defined hsn maio ma.length fn hh h1
  simp only [hi] at hs hs'
  rw [List.getElem?_map, hs] at hs'
  simp only [Option.map_some] at hs'
  rw [Option.some.inj hs']

/-- **Per-frame Rx/Tx frequency.** With hopping enabled, `get_rx_freq(fn)` / `get_tx_freq(fn)`
are the two components of the MA entry the standard selects. -/
theorem py_get_freq_spec (trx : Trx) (hsn maio fn : Nat) (ma : List (Int × Int))
    (hh : hsn < 64) (h1 : 1 ≤ ma.length) (h2 : ma.length ≤ 64) :
    ∃ trx' rx tx, trx.enableFh (hsn : Int) (maio : Int) ma = .ok trx' ∧
      Spec.Hopping.select ma hsn maio fn = some (rx, tx) ∧
      trx'.getRxFreq fn = .ok (some rx) ∧ trx'.getTxFreq fn = .ok (some tx) := by
  obtain ⟨⟨rx, tx⟩, hs, hp⟩ := py_resolve_spec hsn maio fn ma hh h1 h2
  have hn0 : ma.length ≠ 0 := by omega
  simp only [pyResolve, pyInit_ok hsn (maio : Int) ma hh hn0] at hp
  refine ⟨{ trx with fh := some { hsn := hsn, maio := maio, ma := ma, pnm := powNbinMask ma.length } },
    rx, tx, ?_, hs, ?_, ?_⟩
  · simp only [Trx.enableFh, pyInit_ok hsn (maio : Int) ma hh hn0]
  · simp only [Trx.getRxFreq, hp]
  · simp only [Trx.getTxFreq, hp]

/-- Without hopping the configured frequencies are returned unchanged. -/
theorem py_get_freq_nofh (trx : Trx) (fn : Nat) (h : trx.fh = none) :
    trx.getRxFreq fn = .ok trx.rxFreq ∧ trx.getTxFreq fn = .ok trx.txFreq := by
  simp only [Trx.getRxFreq, Trx.getTxFreq, h, and_self]

/-- **Histories on one transceiver.** Whatever was configured before (any sequence of `enable_fh` — successful or refused —
and `disable_fh` on the same object, without power-off in between), after a `SETFH` inside the property's domain every
look-up follows the standard for THESE parameters: nothing of an earlier configuration (mask, allocation length) survives. -/
theorem py_history_last_enable (trx : Trx) (ops : List FhOp) (hsn maio fn : Nat) (ma : List (Int × Int))
    (hh : hsn < 64) (h1 : 1 ≤ ma.length) (h2 : ma.length ≤ 64) :
    ∃ rx tx, Spec.Hopping.select ma hsn maio fn = some (rx, tx) ∧
      (trx.applyOps (ops ++ [.enable hsn maio ma])).getRxFreq fn = .ok (some rx) ∧
      (trx.applyOps (ops ++ [.enable hsn maio ma])).getTxFreq fn = .ok (some tx) := by
  obtain ⟨t', rx, tx, he, hs, hr, ht⟩ := py_get_freq_spec (trx.applyOps ops) hsn maio fn ma hh h1 h2
  refine ⟨rx, tx, hs, ?_, ?_⟩ <;>
    simp only [Trx.applyOps, List.foldl_append, List.foldl_cons, List.foldl_nil, Trx.applyOp] <;>
    simp only [Trx.applyOps] at he <;> rw [he] <;> assumption

/-- a refused `enable_fh` (parameters the constructor rejects) leaves the configuration in force untouched, and after
`disable_fh` the fixed frequencies are returned, whatever the history was -/
theorem py_history_refused_or_disabled (trx : Trx) (ops : List FhOp) (fn : Nat) :
    (∀ hsn maio ma e, (trx.applyOps ops).enableFh hsn maio ma = .error e →
      trx.applyOps (ops ++ [.enable hsn maio ma]) = trx.applyOps ops) ∧
    (trx.applyOps (ops ++ [.disable])).getRxFreq fn = .ok trx.rxFreq ∧
    (trx.applyOps (ops ++ [.disable])).getTxFreq fn = .ok trx.txFreq := by
  have hfix : ∀ (l : List FhOp) (t : Trx), (t.applyOps l).rxFreq = t.rxFreq ∧ (t.applyOps l).txFreq = t.txFreq := by
    intro l
    induction l with
    | nil => intro t; exact ⟨rfl, rfl⟩
    | cons o l ih =>
      intro t
      have h := ih (t.applyOp o)
      simp only [Trx.applyOps, List.foldl_cons] at h ⊢
      rw [h.1, h.2]
      cases o with
      | enable hsn maio ma =>
        simp only [Trx.applyOp, Trx.enableFh]
        split
        · rename_i t' he
          split at he
          · cases he
          · cases he; exact ⟨rfl, rfl⟩
        · exact ⟨rfl, rfl⟩
      | disable => exact ⟨rfl, rfl⟩
  refine ⟨?_, ?_, ?_⟩
  · intro hsn maio ma e he
    simp only [Trx.applyOps, List.foldl_append, List.foldl_cons, List.foldl_nil, Trx.applyOp]
    simp only [Trx.applyOps] at he
    rw [he]
  · have h := py_get_freq_nofh ((trx.applyOps ops).disableFh) fn rfl
    simp only [Trx.applyOps, List.foldl_append, List.foldl_cons, List.foldl_nil, Trx.applyOp]
    simp only [Trx.applyOps] at h
    rw [h.1]
    exact congrArg _ (hfix ops trx).1
  · have h := py_get_freq_nofh ((trx.applyOps ops).disableFh) fn rfl
    simp only [Trx.applyOps, List.foldl_append, List.foldl_cons, List.foldl_nil, Trx.applyOp]
    simp only [Trx.applyOps] at h
    rw [h.2]
    exact congrArg _ (hfix ops trx).2

/-- non-vacuity: 6 channels (NBIN 3) re-configured to 3 channels (NBIN 2) without power-off; the look-up uses the new mask -/
example :
    ((({ fh := none, rxFreq := none, txFreq := none } : Trx).applyOps
      [.enable 1 0 [(1, 11), (2, 12), (3, 13), (4, 14), (5, 15), (6, 16)], .enable 1 3 [(10, 20), (11, 21), (12, 22)]]).getRxFreq 2330631)
      = .ok (some 11) := by
  decide +kernel

/-! ### Non-vacuity and the shape of the deviation branch -/

/-- An instance inside the hypotheses where `M' ≥ N`, so `S = (M' + T') mod N` is used
(`HSN = 1, MAIO = 3, N = 3, FN = 2330631`: `T1R = 29, T2 = 17, T3 = 33, M = 75, M' = 3, T' = 1`,
`S = 1`, `MAI = 1`); simulator and firmware select `MA[1]`. -/
example :
    Spec.Hopping.sOf (1 ^^^ Spec.Hopping.t1r 2330631) 17 33 3 = some 1 ∧
    ¬ ((17 + 58) % 2 ^ Spec.Hopping.nbin 3 < 3) ∧
    Spec.Hopping.mai 1 3 3 2330631 = some 1 ∧
    pyResolve 1 3 [10, 11, 12] 2330631 = .ok 11 ∧
    fwHop 1 3 3 ([10, 11, 12] ++ List.replicate 61 0) 2330631 = .ok 11 := by
  decide +kernel

/-- The expression of the unfixed tree, `((mp + t3) & pnm) % n`, differs from the
standard's `(mp + (t3 & pnm)) % n` on that instance (observation F1). -/
example : ((3 + 33) &&& powNbinMask 3) % 3 = 0 ∧ (3 + (33 &&& powNbinMask 3)) % 3 = 1 := by
  decide

/-- Cyclic hopping and HSN 63 with the largest allocation, the last frame of the hyperframe,
16-bit ARFCNs (above `INT16_MAX`, so the `int16_t` return value of `rfch_hop_seq_gen` wraps and
the store to `uint16_t` restores it). -/
example :
    Spec.Hopping.mai 0 63 64 2715647 = some 62 ∧
    fwHop 0 63 64 ((List.range 64).map (· + 65472)) 2715647 = .ok 65534 ∧
    Spec.Hopping.mai 63 63 64 2715647 = some 33 ∧
    fwHop 63 63 64 ((List.range 64).map (· + 65472)) 2715647 = .ok 65505 ∧
    pyResolve 63 63 ((List.range 64).map (· + 65472)) 2715647 = .ok 65505 := by
  decide +kernel

/-- Outside the property's domain the models keep the real failure modes: the constructor
rejects HSN 64 and negative HSN (`ValueError`); `resolve` on an object whose `hsn` was set to 64
behind the constructor's back addresses the table beyond entry 113 (`IndexError`), a negative
`hsn` would index the Python list from its end; a negative MAIO is reduced by floor-mod; in the
firmware HSN 64 reads `rn_table[114]`, `n = 0` divides by zero, `n = 65` leaves `ma[64]`. -/
example :
    pyResolve 64 0 [10, 11, 12] 50 = .error .ValueError ∧
    pyResolve (-1) 0 [10, 11, 12] 0 = .error .ValueError ∧
    (HoppingParams.mk 64 0 [10, 11, 12] 3).resolve 50 = .error .IndexError ∧
    (HoppingParams.mk (-1) 0 [10, 11, 12] 3).resolve 0 = .ok 10 ∧
    pyResolve 1 (-1) [10, 11, 12] 0 = .ok 11 ∧
    fwHop 64 0 3 [10, 11, 12] 50 = .error (.oobRnTable 114) ∧
    fwHop 5 0 0 [10, 11, 12] 0 = .error .divZero ∧
    fwHop 5 0 65 (List.replicate 64 7) 35 = .error (.oobMa 64) := by
  decide +kernel

/-- Cyclic hopping (HSN = 0) really is cyclic: the index advances by one per frame modulo N, so it repeats
every N frames and any N consecutive frames visit N different channels of the mobile allocation. -/
theorem spec_cyclic (maio n fn : Nat) (hn : 1 ≤ n) :
    Spec.Hopping.mai 0 maio n (fn + 1) = (Spec.Hopping.mai 0 maio n fn).map (fun i => (i + 1) % n) ∧
    Spec.Hopping.mai 0 maio n (fn + n) = Spec.Hopping.mai 0 maio n fn ∧
    (∀ j k, j < n → k < n → Spec.Hopping.mai 0 maio n (fn + j) = Spec.Hopping.mai 0 maio n (fn + k) → j = k) := by
  have hn0 : ¬ n = 0 := by omega
  simp only [Spec.Hopping.mai, hn0, if_false, if_true, Option.map_some, Option.some.injEq]
  refine ⟨?_, ?_, ?_⟩
  · rw [show fn + 1 + maio = fn + maio + 1 by omega, Nat.add_mod (fn + maio) 1 n, Nat.add_mod ((fn + maio) % n) 1 n,
      Nat.mod_mod]
  · rw [show fn + n + maio = fn + maio + n by omega, Nat.add_mod_right]
  · intro j k hj hk h
    have e1 : fn + j + maio = (fn + maio) + j := by omega
    have e2 : fn + k + maio = (fn + maio) + k := by omega
    rw [e1, e2] at h
    generalize fn + maio = a at h
    have ha := Nat.div_add_mod a n
    have hj' := Nat.div_add_mod (a + j) n
    have hk' := Nat.div_add_mod (a + k) n
    have hm := Nat.mod_lt a (show 0 < n by omega)
    -- (a+j) and (a+k) are congruent modulo n and less than n apart
    rcases Nat.lt_trichotomy j k with hlt | heq | hgt
    · exfalso
      have : (k - j) % n = 0 := by
        have := Nat.sub_mod_eq_zero_of_mod_eq h.symm
        rwa [show a + k - (a + j) = k - j by omega] at this
      have := Nat.eq_zero_of_dvd_of_lt (Nat.dvd_of_mod_eq_zero this) (by omega)
      omega
    · exact heq
    · exfalso
      have : (j - k) % n = 0 := by
        have := Nat.sub_mod_eq_zero_of_mod_eq h
        rwa [show a + j - (a + k) = j - k by omega] at this
      have := Nat.eq_zero_of_dvd_of_lt (Nat.dvd_of_mod_eq_zero this) (by omega)
      omega

/-- Pseudo-random hopping depends on the frame number only through T1R, T2, T3: the sequence repeats
every 64 superframes (64·26·51 = 84864 frames), for every HSN ≠ 0, MAIO and N. -/
theorem spec_hop_period (hsn maio n fn : Nat) (hh : hsn ≠ 0) :
    Spec.Hopping.mai hsn maio n (fn + 84864) = Spec.Hopping.mai hsn maio n fn := by
  have e1 : Spec.Hopping.t1r (fn + 84864) = Spec.Hopping.t1r fn := by
    simp only [Spec.Hopping.t1r, Spec.Hopping.t1]; omega
  have e2 : Spec.Hopping.t2 (fn + 84864) = Spec.Hopping.t2 fn := by
    simp only [Spec.Hopping.t2]; omega
  have e3 : Spec.Hopping.t3 (fn + 84864) = Spec.Hopping.t3 fn := by
    simp only [Spec.Hopping.t3]; omega
  simp only [Spec.Hopping.mai, hh, if_false, e1, e2, e3]


/-- The periods carried over to the simulator's code model: `resolve(fn + 84864) = resolve(fn)` for
pseudo-random hopping, `resolve(fn + N) = resolve(fn)` for cyclic hopping — for every frame number. -/
theorem py_resolve_period {α : Type} (hsn maio fn : Nat) (ma : List α)
    (hh : hsn < 64) (h1 : 1 ≤ ma.length) (h2 : ma.length ≤ 64) :
    pyResolve (hsn : Int) (maio : Int) ma (fn + (if hsn = 0 then ma.length else 84864)) =
      pyResolve (hsn : Int) (maio : Int) ma fn := by
  obtain ⟨v, hv, hp⟩ := py_resolve_spec hsn maio fn ma hh h1 h2
  obtain ⟨v', hv', hp'⟩ := py_resolve_spec hsn maio (fn + (if hsn = 0 then ma.length else 84864)) ma hh h1 h2
  have : Spec.Hopping.select ma hsn maio (fn + (if hsn = 0 then ma.length else 84864)) =
      Spec.Hopping.select ma hsn maio fn := by
    simp only [Spec.Hopping.select]
    by_cases h0 : hsn = 0
    · subst h0; simp only [if_true, (spec_cyclic maio ma.length fn h1).2.1]
    · simp only [h0, if_false, spec_hop_period hsn maio ma.length fn h0]
  rw [this, hv] at hv'
  rw [hp, hp', Option.some.inj hv']

end OsmoVerif.Props.C07
