/-
C15 — Capture files return exactly what was stored, even after truncation.
Model: `OsmoVerif.Model.TrxdDump` (DATADump / DATADumpFile over a byte list with cursor), on top of the
TRXD model; uses the round-trip theorems of C01.  Lemmas: `OsmoVerif.Lemmas.TrxdDump`.
"Equal in every field" is, as in C01, equality with `carried m` (the fields the header version transports).
-/
import OsmoVerif.Props.C01
import OsmoVerif.Lemmas.TrxdDump
set_option linter.unusedSimpArgs false

namespace OsmoVerif.Props.C15
open OsmoVerif OsmoVerif.Trxd OsmoVerif.TrxdDump OsmoVerif.Spec.TrxdRanges OsmoVerif.Spec.TrxdLayout

/-- a message the toolkit accepts (Rx: soft bits in -127..127, as in C01) -/
def MsgValid : Msg → Prop
  | .tx m => C01.TxValid m
  | .rx m => C01.RxValid m ∧ C01.SoftRange m

instance (m : Msg) : Decidable (MsgValid m) := by cases m <;> unfold MsgValid <;> infer_instance

/-- the message a stored message reads back as -/
def carriedMsg : Msg → Msg
  | .tx m => .tx m
  | .rx m => .rx (C01.carried m)

def kindOf : Msg → Kind
  | .tx _ => .tx
  | .rx _ => .rx

/-- the `count` limitation of `parse_all` -/
def takeCount (count : Option Nat) (ms : List Msg) : List Msg :=
  match count with
  | none => ms
  | some c => ms.take c

/-! ### a valid message is written as one well-formed record -/

/-- proof device: the TRXD octets of a message (only used for valid messages) -/
def rawOf (m : Msg) : Bytes :=
  match (match m with | .tx t => t.genMsg | .rx r => r.genMsg) with
  | .ok raw => raw
  | .error _ => []

def stored (m : Msg) : Rec × Msg := (⟨kindOf m, rawOf m⟩, carriedMsg m)

theorem layoutTx_length (f : TxFields) (l : Bool) : (layoutTx f l).length ≤ 6 + f.bits.length + 2 := by
  have : (pad f.ver l).length ≤ 2 := by unfold pad; split <;> simp
  simp only [layoutTx, hdr, be32, List.length_append, List.length_cons, List.length_nil]
  omega

theorem rxHdrLayout_length (f : RxFields) : (rxHdrLayout f).length ≤ 11 := by
  simp only [rxHdrLayout, hdr, be32, s16be, List.length_append, List.length_cons, List.length_nil]
  split <;> simp

theorem modLen_le (c n : Nat) (h : modLen c = some n) : n ≤ 740 := by
  unfold modLen at h
  split at h <;> simp only [Option.some.injEq, reduceCtorEq] at h <;> omega

theorem rx_burst_le (m : RxMsg) (h : InRangeRx m) (b : List Int) (hb : m.burst = some b) :
    b.length ≤ 740 := by
  obtain ⟨hv, _, _, _, _, h0, h1⟩ := h
  rcases hv with hv | hv
  · have := h0 hv
    simp only [hb, burstLen148or444] at this
    omega
  · obtain ⟨_, hr⟩ := h1 hv
    cases hn : m.nopeInd with
    | true => simp only [hn, if_true, hb, reduceCtorEq] at hr
    | false =>
      simp only [hn, Bool.false_eq_true, if_false, InRangeMts] at hr
      cases hm : m.modType with
      | none => simp only [hm] at hr
      | some mod =>
        simp only [hm, hb, burstLenOfMod] at hr
        exact modLen_le _ _ hr.2.2

theorem dump_valid (m : Msg) (h : MsgValid m) :
    dumpMsg m = .ok (stored m).1.bytes ∧ (stored m).1.raw.length < 65536 ∧
    parseRaw (stored m).1.kind (stored m).1.raw = .msg (stored m).2 := by
  cases m with
  | tx t =>
    have hr := (TxMsg.validate_iff t).mp h
    have hrt := C01.tx_roundtrip t false h
    obtain ⟨f, hf, hg⟩ := TxMsg.genMsg_layout t false hr
    have hbits : f.bits.length ≤ 444 := by
      rcases t with ⟨ver, fn, tn, pwr, burst⟩
      obtain ⟨_, hfn, htn, hp, hb⟩ := hr
      cases fn <;> cases tn <;> cases pwr <;> cases burst <;>
        simp only [within, burstLen148or444] at hfn htn hp hb
      simp only [TxMsg.fields?] at hf
      split at hf
      · simp only [Option.some.injEq] at hf; subst hf; simp only; omega
      · cases hf
    have hlen := layoutTx_length f false
    have hraw : rawOf (.tx t) = layoutTx f false := by simp only [rawOf, hg]
    rw [hg] at hrt
    simp only [bind, Except.bind] at hrt
    refine ⟨?_, by simp only [stored, hraw]; omega, ?_⟩
    · have hp : packBE16u (layoutTx f false).length
          = .ok [(layoutTx f false).length / 256 % 256, (layoutTx f false).length % 256] := by
        simp only [packBE16u, show (layoutTx f false).length < 65536 by omega, if_true]
      simp only [dumpMsg, hg, hp, bind, Except.bind, pure, Except.pure, stored, hraw, Rec.bytes, kindOf, tagOf]
    · simp only [stored, hraw, kindOf, parseRaw, hrt, carriedMsg]
  | rx r =>
    obtain ⟨hval, hs⟩ := h
    have hr := (RxMsg.validate_iff r).mp hval
    have hrt := C01.rx_roundtrip r false hval hs
    obtain ⟨f, hf, hsoft, hg⟩ := RxMsg.genMsg_split r false hr
    obtain ⟨u, hu, hun, hus⟩ := RxMsg.appendBurstTo_len r (rxHdrLayout f)
    rw [hu] at hg
    simp only at hg
    have hsl : u.length ≤ 740 := by
      cases hb : r.burst with
      | none => simp [hun hb]
      | some b => rw [hus b hb]; exact rx_burst_le r hr b hb
    have hpl : (pad f.ver false).length ≤ 2 := by unfold pad; split <;> simp
    have hh := rxHdrLayout_length f
    have hraw : rawOf (.rx r) = rxHdrLayout f ++ u ++ pad f.ver false := by simp only [rawOf, hg]
    have hlen : (rxHdrLayout f ++ u ++ pad f.ver false).length < 65536 := by
      simp only [List.length_append]; omega
    rw [hg] at hrt
    simp only [bind, Except.bind] at hrt
    refine ⟨?_, by simp only [stored, hraw]; exact hlen, ?_⟩
    · have hp : packBE16u (rxHdrLayout f ++ u ++ pad f.ver false).length
          = .ok [(rxHdrLayout f ++ u ++ pad f.ver false).length / 256 % 256,
                 (rxHdrLayout f ++ u ++ pad f.ver false).length % 256] := by
        simp only [packBE16u, hlen, if_true]
      simp only [dumpMsg, hg, hp, bind, Except.bind, pure, Except.pure, stored, hraw, Rec.bytes, kindOf, tagOf]
    · simp only [stored, hraw, kindOf, parseRaw, hrt, carriedMsg]

theorem stored_wf (ms : List Msg) (hv : ∀ m ∈ ms, MsgValid m) : StoredWF (ms.map stored) := by
  intro x hx
  obtain ⟨m, hm, rfl⟩ := List.mem_map.mp hx
  exact (dump_valid m (hv m hm)).2

/-- `append_all` of valid messages at the end of a file appends their records -/
theorem appendAll_valid (ms : List Msg) (hv : ∀ m ∈ ms, MsgValid m) (d : Bytes) :
    appendAll ⟨d, d.length⟩ ms
      = .ok ⟨d ++ recsBytes (ms.map (fun m => (stored m).1)), (d ++ recsBytes (ms.map (fun m => (stored m).1))).length⟩ := by
  induction ms generalizing d with
  | nil => simp [appendAll, recsBytes]
  | cons m ms ih =>
    have hd := (dump_valid m (hv m (List.mem_cons_self ..))).1
    have := ih (fun m' hm' => hv m' (List.mem_cons_of_mem _ hm')) (d ++ (stored m).1.bytes)
    simp only [appendAll, appendMsg, hd, bind, Except.bind, pure, Except.pure, write_at_end, this,
      List.map_cons, recsBytes_cons, List.append_assoc]

theorem capture_of (ms : List Msg) (hv : ∀ m ∈ ms, MsgValid m) (p : Bytes) (hp : IsCutTail p) :
    Capture (recsBytes ((ms.map stored).map (·.1)) ++ p) (ms.map stored) :=
  ⟨⟨p, rfl, hp⟩, stored_wf ms hv⟩

theorem stored_msgs (ms : List Msg) : (ms.map stored).map (·.2) = ms.map carriedMsg := by
  simp [stored, List.map_map, Function.comp]

theorem stored_recs (ms : List Msg) : (ms.map stored).map (·.1) = ms.map (fun m => (stored m).1) := by
  simp [List.map_map, Function.comp]

theorem loopSpec_takeCount (count : Option Nat) (ms : List Msg) (hc : ∀ c, count = some c → 1 ≤ c) :
    loopSpec count [] ms = takeCount count ms := by
  cases count with
  | none => simp [loopSpec_none, takeCount]
  | some c =>
    have := hc c rfl
    rw [loopSpec_some c [] ms (by simp; omega)]
    simp [takeCount]

/-! ### the property -/

/-- Messages appended to a capture file are returned by a full read in the same order and equal in
every (transported) field. -/
theorem parse_all_stored (ms : List Msg) (hv : ∀ m ∈ ms, MsgValid m) :
    ∃ f f', appendAll ⟨[], 0⟩ ms = .ok f ∧
      parseAll f none none = .ok (some (ms.map carriedMsg), f') := by
  have ha := appendAll_valid ms hv []
  simp only [List.nil_append, List.length_nil] at ha
  have c := capture_of ms hv [] (Or.inl rfl)
  simp only [List.append_nil, stored_recs] at c
  obtain ⟨f', hf'⟩ := parseAll_noskip c (recsBytes (ms.map (fun m => (stored m).1))).length none
  exact ⟨_, f', ha, by rw [hf', loopSpec_none, stored_msgs]; rfl⟩

/-- The i-th message is returned by random access, for every i. -/
theorem parse_msg_idx (ms : List Msg) (hv : ∀ m ∈ ms, MsgValid m) (i : Nat) (hi : i < ms.length) :
    ∃ f f', appendAll ⟨[], 0⟩ ms = .ok f ∧ parseMsg f i = .ok (.msg (carriedMsg ms[i]), f') := by
  have ha := appendAll_valid ms hv []
  simp only [List.nil_append, List.length_nil] at ha
  have c := capture_of ms hv [] (Or.inl rfl)
  simp only [List.append_nil, stored_recs] at c
  obtain ⟨f', hf'⟩ := parseMsg_idx c (recsBytes (ms.map (fun m => (stored m).1))).length i (by simpa using hi)
  refine ⟨_, f', ha, ?_⟩
  rw [hf']
  simp [stored]

/-- skip / count select exactly the corresponding slice; a skip beyond the stored messages is the
documented range error (`False`). -/
theorem skip_count_slice (ms : List Msg) (hv : ∀ m ∈ ms, MsgValid m) (skip : Option Nat) (count : Option Nat)
    (hc : ∀ c, count = some c → 1 ≤ c) :
    ∃ f f', appendAll ⟨[], 0⟩ ms = .ok f ∧
      parseAll f skip count =
        .ok ((match skip with
              | none => some (takeCount count (ms.map carriedMsg))
              | some s => if s ≤ ms.length then some (takeCount count ((ms.drop s).map carriedMsg)) else none), f') := by
  have ha := appendAll_valid ms hv []
  simp only [List.nil_append, List.length_nil] at ha
  have c := capture_of ms hv [] (Or.inl rfl)
  simp only [List.append_nil, stored_recs] at c
  cases skip with
  | none =>
    obtain ⟨f', hf'⟩ := parseAll_noskip c (recsBytes (ms.map (fun m => (stored m).1))).length count
    exact ⟨_, f', ha, by rw [hf', loopSpec_takeCount count _ hc, stored_msgs]⟩
  | some s =>
    by_cases hs : s ≤ ms.length
    · obtain ⟨f', hf'⟩ := parseAll_skip c (recsBytes (ms.map (fun m => (stored m).1))).length s count (by simpa using hs)
      refine ⟨_, f', ha, ?_⟩
      rw [hf', loopSpec_takeCount count _ hc]
      simp only [hs, if_true, ← List.map_drop, stored_msgs]
    · obtain ⟨f', hf'⟩ := seek2msg_beyond_eof c (by rw [stored_recs]) (recsBytes (ms.map (fun m => (stored m).1))).length s
        (by simp; omega)
      refine ⟨_, f', ha, ?_⟩
      simp only [parseAll, hf', bind, Except.bind, pure, Except.pure, Bool.false_eq_true, not_false_eq_true,
        if_true, hs, if_false]

/-- exactly the first `k` messages of `ms` were completely written within the first `cut` octets:
the file holding the first `k` messages is no longer than `cut`, the one holding `k + 1` is longer -/
def CompleteBefore (ms : List Msg) (cut k : Nat) : Prop :=
  k ≤ ms.length ∧
  (∃ fk, appendAll ⟨[], 0⟩ (ms.take k) = .ok fk ∧ fk.data.length ≤ cut) ∧
  (k < ms.length → ∃ fk1, appendAll ⟨[], 0⟩ (ms.take (k + 1)) = .ok fk1 ∧ cut < fk1.data.length)

/-- a capture cut at any offset consists of the completely written records and a cut tail -/
theorem cut_capture (ms : List Msg) (hv : ∀ m ∈ ms, MsgValid m) (cut : Nat) :
    ∃ f k, appendAll ⟨[], 0⟩ ms = .ok f ∧ CompleteBefore ms cut k ∧
      Capture (f.data.take cut) ((ms.take k).map stored) := by
  have ha := appendAll_valid ms hv []
  simp only [List.nil_append, List.length_nil] at ha
  have hl : ∀ r ∈ ms.map (fun m => (stored m).1), r.raw.length < 65536 := by
    intro r hr
    obtain ⟨m, hm, rfl⟩ := List.mem_map.mp hr
    exact (dump_valid m (hv m hm)).2.1
  obtain ⟨p, hp, htail, hk⟩ := take_recsBytes (ms.map (fun m => (stored m).1)) cut hl
  obtain ⟨hs1, hs2⟩ := completeRecs_spec (ms.map (fun m => (stored m).1)) cut
  have hvk : ∀ n, ∀ m ∈ ms.take n, MsgValid m := fun n m hm => hv m (List.mem_of_mem_take hm)
  refine ⟨_, completeRecs (ms.map (fun m => (stored m).1)) cut, ha, ⟨by simpa using hk, ?_, ?_⟩, ?_⟩
  · have := appendAll_valid (ms.take (completeRecs (ms.map (fun m => (stored m).1)) cut)) (hvk _) []
    simp only [List.nil_append, List.length_nil] at this
    exact ⟨_, this, by simpa only [List.map_take] using hs1⟩
  · intro hlt
    have := appendAll_valid (ms.take (completeRecs (ms.map (fun m => (stored m).1)) cut + 1)) (hvk _) []
    simp only [List.nil_append, List.length_nil] at this
    exact ⟨_, this, by simpa only [List.map_take] using hs2 (by simpa using hlt)⟩
  · refine ⟨⟨p, ?_, htail⟩, stored_wf _ (hvk _)⟩
    simp only [hp, stored_recs, List.map_take]

/-- If the file is cut at any byte offset, a full read returns exactly the messages completely
written before the cut, without raising. -/
theorem truncated_prefix (ms : List Msg) (hv : ∀ m ∈ ms, MsgValid m) (cut : Nat) :
    ∃ f k f', appendAll ⟨[], 0⟩ ms = .ok f ∧ CompleteBefore ms cut k ∧
      parseAll ⟨f.data.take cut, 0⟩ none none = .ok (some ((ms.take k).map carriedMsg), f') := by
  obtain ⟨f, k, ha, hk, c⟩ := cut_capture ms hv cut
  obtain ⟨f', hf'⟩ := parseAll_noskip c 0 none
  exact ⟨f, k, f', ha, hk, by rw [hf', loopSpec_none, stored_msgs]; rfl⟩

/-- Random access on a cut file: the i-th message if it was completely written, `None` otherwise;
never an exception. -/
theorem truncated_parse_msg (ms : List Msg) (hv : ∀ m ∈ ms, MsgValid m) (cut i : Nat) :
    ∃ f k f', appendAll ⟨[], 0⟩ ms = .ok f ∧ CompleteBefore ms cut k ∧
      parseMsg ⟨f.data.take cut, 0⟩ i =
        .ok ((if h : i < ms.length then (if i < k then .msg (carriedMsg ms[i]) else .none) else .none), f') := by
  obtain ⟨f, k, ha, hk, c⟩ := cut_capture ms hv cut
  by_cases hi : i < k
  · have hil : i < ms.length := by have := hk.1; omega
    obtain ⟨f', hf'⟩ := parseMsg_idx c 0 i (by simp; omega)
    refine ⟨f, k, f', ha, hk, ?_⟩
    rw [hf']
    simp [hil, hi, stored]
  · obtain ⟨f', hf'⟩ := parseMsg_beyond c 0 i (by simp; omega)
    refine ⟨f, k, f', ha, hk, ?_⟩
    rw [hf']
    simp [hi]

/-- skip / count on a cut file: the corresponding slice of the completely written messages; a skip
beyond them gives the range error `False` or (when the header of the cut record survived) the empty
list; never an exception, never a message that was not completely written. -/
theorem truncated_skip_count (ms : List Msg) (hv : ∀ m ∈ ms, MsgValid m) (cut s : Nat) (count : Option Nat)
    (hc : ∀ c, count = some c → 1 ≤ c) :
    ∃ f k f', appendAll ⟨[], 0⟩ ms = .ok f ∧ CompleteBefore ms cut k ∧
      (s ≤ k → parseAll ⟨f.data.take cut, 0⟩ (some s) count
                = .ok (some (takeCount count (((ms.take k).drop s).map carriedMsg)), f')) ∧
      (k < s → parseAll ⟨f.data.take cut, 0⟩ (some s) count = .ok (none, f') ∨
               parseAll ⟨f.data.take cut, 0⟩ (some s) count = .ok (some [], f')) := by
  obtain ⟨f, k, ha, hk, c⟩ := cut_capture ms hv cut
  have hkl : ((ms.take k).map stored).length = k := by simp [Nat.min_eq_left hk.1]
  by_cases hs : s ≤ k
  · obtain ⟨f', hf'⟩ := parseAll_skip c 0 s count (by omega)
    refine ⟨f, k, f', ha, hk, fun _ => ?_, fun h => by omega⟩
    rw [hf', loopSpec_takeCount count _ hc]
    simp only [← List.map_drop, stored_msgs]
  · obtain ⟨f', hf'⟩ := parseAll_beyond c 0 s count (by omega)
    exact ⟨f, k, f', ha, hk, fun h => by omega, fun _ => hf'⟩

/-! ### non-vacuity -/

/-- a stored list with all classes of messages: v0 Tx, v1 Rx 8-PSK, NOPE indication -/
example : ∀ m ∈ ([.tx ⟨0, some 0, some 0, some 0, some (List.replicate 148 1)⟩,
      .rx ⟨1, some 2715647, some 7, some (-47), some (-1), Modulation.ofName? "Mod8PSK", false, some 1, some 7,
        some (-1280), some (List.replicate 444 (-127))⟩,
      .rx ⟨1, some 5, some 3, some (-120), some 0, none, true, none, none, some 1280, none⟩] : List Msg),
    MsgValid m := by decide +kernel

end OsmoVerif.Props.C15
