/-
C15 — Capture files return exactly what was stored, even after truncation.
Model: `OsmoVerif.Model.TrxdDump` (DATADump / DATADumpFile over a byte list with cursor), on top of the
TRXD model; uses the round-trip theorems of C01.  Lemmas: `OsmoVerif.Lemmas.TrxdDump`.
"Equal in every field" is, as in C01, equality with `carried m` (the fields the header version transports).
-/
import OsmoVerif.Props.C01
import OsmoVerif.Lemmas.TrxdDump
import OsmoVerif.Lemmas.TrxdDumpHist
set_option linter.unusedSimpArgs false

namespace OsmoVerif.Props.C15
open OsmoVerif OsmoVerif.Trxd OsmoVerif.TrxdDump OsmoVerif.Spec.TrxdRanges OsmoVerif.Spec.TrxdLayout

/-- a message the toolkit accepts (Rx: soft bits in -127..127, as in C01) -/
def MsgValid : Msg → Prop
  | .tx m => C01.TxValid m
  | .rx m => C01.RxValid m ∧ C01.SoftRange m

instance (m : Msg) : Decidable (MsgValid m) := by cases m <;> unfold MsgValid <;> infer_instance

/-- the message a stored message reads back as -/
def carriedMsg : Msg → Msg
  | .tx m => .tx m
  | .rx m => .rx (C01.carried m)

def kindOf : Msg → Kind
  | .tx _ => .tx
  | .rx _ => .rx

/-- the `count` limitation of `parse_all` -/
def takeCount (count : Option Nat) (ms : List Msg) : List Msg :=
  match count with
  | none => ms
  | some c => ms.take c

/-! ### a valid message is written as one well-formed record -/

/-- proof device: the TRXD octets of a message (only used for valid messages) -/
def rawOf (m : Msg) : Bytes :=
  match (match m with | .tx t => t.genMsg | .rx r => r.genMsg) with
  | .ok raw => raw
  | .error _ => []

def stored (m : Msg) : Rec × Msg := (⟨kindOf m, rawOf m⟩, carriedMsg m)

theorem layoutTx_length (f : TxFields) (l : Bool) : (layoutTx f l).length ≤ 6 + f.bits.length + 2 := by
  have : (pad f.ver l).length ≤ 2 := by unfold pad; split <;> simp
  simp only [layoutTx, hdr, be32, List.length_append, List.length_cons, List.length_nil]
  omega

theorem rxHdrLayout_length (f : RxFields) : (rxHdrLayout f).length ≤ 11 := by
  simp only [rxHdrLayout, hdr, be32, s16be, List.length_append, List.length_cons, List.length_nil]
  split <;> simp

theorem modLen_le (c n : Nat) (h : modLen c = some n) : n ≤ 740 := by
  unfold modLen at h
  split at h <;> simp only [Option.some.injEq, reduceCtorEq] at h <;> omega

theorem rx_burst_le (m : RxMsg) (h : InRangeRx m) (b : List Int) (hb : m.burst = some b) :
    b.length ≤ 740 := by
  obtain ⟨hv, _, _, _, _, h0, h1⟩ := h
  rcases hv with hv | hv
  · have := h0 hv
    simp only [hb, burstLen148or444] at this
    omega
  · obtain ⟨_, hr⟩ := h1 hv
    cases hn : m.nopeInd with
    | true => simp only [hn, if_true, hb, reduceCtorEq] at hr
    | false =>
      simp only [hn, Bool.false_eq_true, if_false, InRangeMts] at hr
      cases hm : m.modType with
      | none => simp only [hm] at hr
      | some mod =>
        simp only [hm, hb, burstLenOfMod] at hr
        exact modLen_le _ _ hr.2.2

theorem dump_valid (m : Msg) (h : MsgValid m) :
    dumpMsg m = .ok (stored m).1.bytes ∧ (stored m).1.raw.length < 65536 ∧
    parseRaw (stored m).1.kind (stored m).1.raw = .msg (stored m).2 := by
  cases m with
  | tx t =>
    have hr := (TxMsg.validate_iff t).mp h
    have hrt := C01.tx_roundtrip t false h
    obtain ⟨f, hf, hg⟩ := TxMsg.genMsg_layout t false hr
    have hbits : f.bits.length ≤ 444 := by
      rcases t with ⟨ver, fn, tn, pwr, burst⟩
      obtain ⟨_, hfn, htn, hp, hb⟩ := hr
      cases fn <;> cases tn <;> cases pwr <;> cases burst <;>
        simp only [within, burstLen148or444] at hfn htn hp hb
      simp only [TxMsg.fields?] at hf
      split at hf
      · simp only [Option.some.injEq] at hf; subst hf; simp only; omega
      · cases hf
    have hlen := layoutTx_length f false
    have hraw : rawOf (.tx t) = layoutTx f false := by simp only [rawOf, hg]
    rw [hg] at hrt
    simp only [bind, Except.bind] at hrt
    refine ⟨?_, by simp only [stored, hraw]; omega, ?_⟩
    · have hp : packBE16u (layoutTx f false).length
          = .ok [(layoutTx f false).length / 256 % 256, (layoutTx f false).length % 256] := by
        simp only [packBE16u, show (layoutTx f false).length < 65536 by omega, if_true]
      simp only [dumpMsg, hg, hp, bind, Except.bind, pure, Except.pure, stored, hraw, Rec.bytes, kindOf, tagOf]
    · simp only [stored, hraw, kindOf, parseRaw, hrt, carriedMsg]
  | rx r =>
    obtain ⟨hval, hs⟩ := h
    have hr := (RxMsg.validate_iff r).mp hval
    have hrt := C01.rx_roundtrip r false hval hs
    obtain ⟨f, hf, hsoft, hg⟩ := RxMsg.genMsg_split r false hr
    obtain ⟨u, hu, hun, hus⟩ := RxMsg.appendBurstTo_len r (rxHdrLayout f)
    rw [hu] at hg
    simp only at hg
    have hsl : u.length ≤ 740 := by
      cases hb : r.burst with
      | none => simp [hun hb]
      | some b => rw [hus b hb]; exact rx_burst_le r hr b hb
    have hpl : (pad f.ver false).length ≤ 2 := by unfold pad; split <;> simp
    have hh := rxHdrLayout_length f
    have hraw : rawOf (.rx r) = rxHdrLayout f ++ u ++ pad f.ver false := by simp only [rawOf, hg]
    have hlen : (rxHdrLayout f ++ u ++ pad f.ver false).length < 65536 := by
      simp only [List.length_append]; omega
    rw [hg] at hrt
    simp only [bind, Except.bind] at hrt
    refine ⟨?_, by simp only [stored, hraw]; exact hlen, ?_⟩
    · have hp : packBE16u (rxHdrLayout f ++ u ++ pad f.ver false).length
          = .ok [(rxHdrLayout f ++ u ++ pad f.ver false).length / 256 % 256,
                 (rxHdrLayout f ++ u ++ pad f.ver false).length % 256] := by
        simp only [packBE16u, hlen, if_true]
      simp only [dumpMsg, hg, hp, bind, Except.bind, pure, Except.pure, stored, hraw, Rec.bytes, kindOf, tagOf]
    · simp only [stored, hraw, kindOf, parseRaw, hrt, carriedMsg]

theorem stored_wf (ms : List Msg) (hv : ∀ m ∈ ms, MsgValid m) : StoredWF (ms.map stored) := by
  intro x hx
  obtain ⟨m, hm, rfl⟩ := List.mem_map.mp hx
  exact (dump_valid m (hv m hm)).2

/-- `append_all` of valid messages at the end of a file appends their records -/
theorem appendAll_valid (ms : List Msg) (hv : ∀ m ∈ ms, MsgValid m) (d : Bytes) :
    appendAll ⟨d, d.length⟩ ms
      = .ok ⟨d ++ recsBytes (ms.map (fun m => (stored m).1)), (d ++ recsBytes (ms.map (fun m => (stored m).1))).length⟩ := by
  induction ms generalizing d with
  | nil => simp [appendAll, recsBytes]
  | cons m ms ih =>
    have hd := (dump_valid m (hv m (List.mem_cons_self ..))).1
    have := ih (fun m' hm' => hv m' (List.mem_cons_of_mem _ hm')) (d ++ (stored m).1.bytes)
    simp only [appendAll, appendMsg, File.seekEnd, hd, bind, Except.bind, pure, Except.pure, write_at_end, this,
      List.map_cons, recsBytes_cons, List.append_assoc]

theorem capture_of (ms : List Msg) (hv : ∀ m ∈ ms, MsgValid m) (p : Bytes) (hp : IsCutTail p) :
    Capture (recsBytes ((ms.map stored).map (·.1)) ++ p) (ms.map stored) :=
  ⟨⟨p, rfl, hp⟩, stored_wf ms hv⟩

theorem stored_msgs (ms : List Msg) : (ms.map stored).map (·.2) = ms.map carriedMsg := by
  simp [stored, List.map_map, Function.comp]

theorem stored_recs (ms : List Msg) : (ms.map stored).map (·.1) = ms.map (fun m => (stored m).1) := by
  simp [List.map_map, Function.comp]

theorem loopSpec_takeCount (count : Option Nat) (ms : List Msg) (hc : ∀ c, count = some c → 1 ≤ c) :
    loopSpec count [] ms = takeCount count ms := by
  cases count with
  | none => simp [loopSpec_none, takeCount]
  | some c =>
    have := hc c rfl
    rw [loopSpec_some c [] ms (by simp; omega)]
    simp [takeCount]

/-! ### the property -/

/-- Messages appended to a capture file are returned by a full read in the same order and equal in
every (transported) field. -/
theorem parse_all_stored (ms : List Msg) (hv : ∀ m ∈ ms, MsgValid m) :
    ∃ f f', appendAll ⟨[], 0⟩ ms = .ok f ∧
      parseAll f none none = .ok (some (ms.map carriedMsg), f') := by
  have ha := appendAll_valid ms hv []
  simp only [List.nil_append, List.length_nil] at ha
  have c := capture_of ms hv [] (Or.inl rfl)
  simp only [List.append_nil, stored_recs] at c
  obtain ⟨f', hf'⟩ := parseAll_noskip c (recsBytes (ms.map (fun m => (stored m).1))).length none
  exact ⟨_, f', ha, by rw [hf', loopSpec_none, stored_msgs]; rfl⟩

/-- The i-th message is returned by random access, for every i. -/
theorem parse_msg_idx (ms : List Msg) (hv : ∀ m ∈ ms, MsgValid m) (i : Nat) (hi : i < ms.length) :
    ∃ f f', appendAll ⟨[], 0⟩ ms = .ok f ∧ parseMsg f i = .ok (.msg (carriedMsg ms[i]), f') := by
  have ha := appendAll_valid ms hv []
  simp only [List.nil_append, List.length_nil] at ha
  have c := capture_of ms hv [] (Or.inl rfl)
  simp only [List.append_nil, stored_recs] at c
  obtain ⟨f', hf'⟩ := parseMsg_idx c (recsBytes (ms.map (fun m => (stored m).1))).length i (by simpa using hi)
  refine ⟨_, f', ha, ?_⟩
  rw [hf']
  simp [stored]

/-- skip / count select exactly the corresponding slice; a skip beyond the stored messages is the
documented range error (`False`). -/
theorem skip_count_slice (ms : List Msg) (hv : ∀ m ∈ ms, MsgValid m) (skip : Option Nat) (count : Option Nat)
    (hc : ∀ c, count = some c → 1 ≤ c) :
    ∃ f f', appendAll ⟨[], 0⟩ ms = .ok f ∧
      parseAll f skip count =
        .ok ((match skip with
              | none => some (takeCount count (ms.map carriedMsg))
              | some s => if s ≤ ms.length then some (takeCount count ((ms.drop s).map carriedMsg)) else none), f') := by
  have ha := appendAll_valid ms hv []
  simp only [List.nil_append, List.length_nil] at ha
  have c := capture_of ms hv [] (Or.inl rfl)
  simp only [List.append_nil, stored_recs] at c
  cases skip with
  | none =>
    obtain ⟨f', hf'⟩ := parseAll_noskip c (recsBytes (ms.map (fun m => (stored m).1))).length count
    exact ⟨_, f', ha, by rw [hf', loopSpec_takeCount count _ hc, stored_msgs]⟩
  | some s =>
    by_cases hs : s ≤ ms.length
    · obtain ⟨f', hf'⟩ := parseAll_skip c (recsBytes (ms.map (fun m => (stored m).1))).length s count (by simpa using hs)
      refine ⟨_, f', ha, ?_⟩
      rw [hf', loopSpec_takeCount count _ hc]
      simp only [hs, if_true, ← List.map_drop, stored_msgs]
    · obtain ⟨f', hf'⟩ := seek2msg_beyond_eof c (by rw [stored_recs]) (recsBytes (ms.map (fun m => (stored m).1))).length s
        (by simp; omega)
      refine ⟨_, f', ha, ?_⟩
      simp only [parseAll, hf', bind, Except.bind, pure, Except.pure, Bool.false_eq_true, not_false_eq_true,
        if_true, hs, if_false]

/-- exactly the first `k` messages of `ms` were completely written within the first `cut` octets:
the file holding the first `k` messages is no longer than `cut`, the one holding `k + 1` is longer -/
def CompleteBefore (ms : List Msg) (cut k : Nat) : Prop :=
  k ≤ ms.length ∧
  (∃ fk, appendAll ⟨[], 0⟩ (ms.take k) = .ok fk ∧ fk.data.length ≤ cut) ∧
  (k < ms.length → ∃ fk1, appendAll ⟨[], 0⟩ (ms.take (k + 1)) = .ok fk1 ∧ cut < fk1.data.length)

/-- a capture cut at any offset consists of the completely written records and a cut tail -/
theorem cut_capture (ms : List Msg) (hv : ∀ m ∈ ms, MsgValid m) (cut : Nat) :
    ∃ f k, appendAll ⟨[], 0⟩ ms = .ok f ∧ CompleteBefore ms cut k ∧
      Capture (f.data.take cut) ((ms.take k).map stored) := by
  have ha := appendAll_valid ms hv []
  simp only [List.nil_append, List.length_nil] at ha
  have hl : ∀ r ∈ ms.map (fun m => (stored m).1), r.raw.length < 65536 := by
    intro r hr
    obtain ⟨m, hm, rfl⟩ := List.mem_map.mp hr
    exact (dump_valid m (hv m hm)).2.1
  obtain ⟨p, hp, htail, hk⟩ := take_recsBytes (ms.map (fun m => (stored m).1)) cut hl
  obtain ⟨hs1, hs2⟩ := completeRecs_spec (ms.map (fun m => (stored m).1)) cut
  have hvk : ∀ n, ∀ m ∈ ms.take n, MsgValid m := fun n m hm => hv m (List.mem_of_mem_take hm)
  refine ⟨_, completeRecs (ms.map (fun m => (stored m).1)) cut, ha, ⟨by simpa using hk, ?_, ?_⟩, ?_⟩
  · have := appendAll_valid (ms.take (completeRecs (ms.map (fun m => (stored m).1)) cut)) (hvk _) []
    simp only [List.nil_append, List.length_nil] at this
    exact ⟨_, this, by simpa only [List.map_take] using hs1⟩
  · intro hlt
    have := appendAll_valid (ms.take (completeRecs (ms.map (fun m => (stored m).1)) cut + 1)) (hvk _) []
    simp only [List.nil_append, List.length_nil] at this
    exact ⟨_, this, by simpa only [List.map_take] using hs2 (by simpa using hlt)⟩
  · refine ⟨⟨p, ?_, htail⟩, stored_wf _ (hvk _)⟩
    simp only [hp, stored_recs, List.map_take]

/-- If the file is cut at any byte offset, a full read returns exactly the messages completely
written before the cut, without raising. -/
theorem truncated_prefix (ms : List Msg) (hv : ∀ m ∈ ms, MsgValid m) (cut : Nat) :
    ∃ f k f', appendAll ⟨[], 0⟩ ms = .ok f ∧ CompleteBefore ms cut k ∧
      parseAll ⟨f.data.take cut, 0⟩ none none = .ok (some ((ms.take k).map carriedMsg), f') := by
  obtain ⟨f, k, ha, hk, c⟩ := cut_capture ms hv cut
  obtain ⟨f', hf'⟩ := parseAll_noskip c 0 none
  exact ⟨f, k, f', ha, hk, by rw [hf', loopSpec_none, stored_msgs]; rfl⟩

/-- Random access on a cut file: the i-th message if it was completely written, `None` otherwise;
never an exception. -/
theorem truncated_parse_msg (ms : List Msg) (hv : ∀ m ∈ ms, MsgValid m) (cut i : Nat) :
    ∃ f k f', appendAll ⟨[], 0⟩ ms = .ok f ∧ CompleteBefore ms cut k ∧
      parseMsg ⟨f.data.take cut, 0⟩ i =
        .ok ((if h : i < ms.length then (if i < k then .msg (carriedMsg ms[i]) else .none) else .none), f') := by
  obtain ⟨f, k, ha, hk, c⟩ := cut_capture ms hv cut
  by_cases hi : i < k
  · have hil : i < ms.length := by have := hk.1; omega
    obtain ⟨f', hf'⟩ := parseMsg_idx c 0 i (by simp; omega)
    refine ⟨f, k, f', ha, hk, ?_⟩
    rw [hf']
    simp [hil, hi, stored]
  · obtain ⟨f', hf'⟩ := parseMsg_beyond c 0 i (by simp; omega)
    refine ⟨f, k, f', ha, hk, ?_⟩
    rw [hf']
    simp [hi]

/-- skip / count on a cut file: the corresponding slice of the completely written messages; a skip
beyond them gives the range error `False` or (when the header of the cut record survived) the empty
list; never an exception, never a message that was not completely written. -/
theorem truncated_skip_count (ms : List Msg) (hv : ∀ m ∈ ms, MsgValid m) (cut s : Nat) (count : Option Nat)
    (hc : ∀ c, count = some c → 1 ≤ c) :
    ∃ f k f', appendAll ⟨[], 0⟩ ms = .ok f ∧ CompleteBefore ms cut k ∧
      (s ≤ k → parseAll ⟨f.data.take cut, 0⟩ (some s) count
                = .ok (some (takeCount count (((ms.take k).drop s).map carriedMsg)), f')) ∧
      (k < s → parseAll ⟨f.data.take cut, 0⟩ (some s) count = .ok (none, f') ∨
               parseAll ⟨f.data.take cut, 0⟩ (some s) count = .ok (some [], f')) := by
  obtain ⟨f, k, ha, hk, c⟩ := cut_capture ms hv cut
  have hkl : ((ms.take k).map stored).length = k := by simp [Nat.min_eq_left hk.1]
  by_cases hs : s ≤ k
  · obtain ⟨f', hf'⟩ := parseAll_skip c 0 s count (by omega)
    refine ⟨f, k, f', ha, hk, fun _ => ?_, fun h => by omega⟩
    rw [hf', loopSpec_takeCount count _ hc]
    simp only [← List.map_drop, stored_msgs]
  · obtain ⟨f', hf'⟩ := parseAll_beyond c 0 s count (by omega)
    exact ⟨f, k, f', ha, hk, fun h => by omega, fun _ => hf'⟩

/-! ### histories on ONE capture-file object

`runHist f ops` runs the operations one after the other on the same object (content and cursor as the
previous operation left them); `specHist d ops` answers every read with a fresh reader on the current
content. -/

/-- History independence, for EVERY content, cursor and history (valid or invalid messages, out-of-range
accesses, reads on garbage, crashes, appends after reads): no read method raises, every operation
answers exactly what the stored bytes alone determine (a read: what a fresh reader returns on the
current content; earlier reads, failed or out-of-range accesses and the cursor they left never
influence a later result), and the content evolves by appending records at its end / cutting only. -/
theorem history_independence (f : File) (ops : List Op) :
    ∃ fe, runHist f ops = ((specHist f.data ops).1, some fe) ∧ fe.data = (specHist f.data ops).2 :=
  runHist_spec ops f

/-- A read after ANY history on the object returns what a fresh reader returns on the bytes stored at
that moment. -/
theorem read_after_history (f : File) (pre : List Op) (idx : Nat) (skip count : Option Nat) :
    ∃ fe r f1 l f2, runHist f pre = ((specHist f.data pre).1, some fe) ∧
      parseMsg ⟨fe.data, 0⟩ idx = .ok (r, f1) ∧
      (runHist f (pre ++ [.parseMsg idx])).1 = (runHist f pre).1 ++ [.res r] ∧
      parseAll ⟨fe.data, 0⟩ skip count = .ok (l, f2) ∧
      (runHist f (pre ++ [.parseAll skip count])).1 = (runHist f pre).1 ++ [.all l] := by
  obtain ⟨fe, h1, hd⟩ := runHist_spec pre f
  obtain ⟨r, f1, hr, _⟩ := parseMsg_total ⟨fe.data, 0⟩ idx
  obtain ⟨l, f2, hl, _⟩ := parseAll_total ⟨fe.data, 0⟩ skip count
  obtain ⟨fe2, h2, _⟩ := runHist_spec (pre ++ [.parseMsg idx]) f
  obtain ⟨fe3, h3, _⟩ := runHist_spec (pre ++ [.parseAll skip count]) f
  refine ⟨fe, r, f1, l, f2, h1, hr, ?_, hl, ?_⟩
  · rw [h2, h1, specHist_append]
    simp only [specHist, specStep, ← hd, hr]
  · rw [h3, h1, specHist_append]
    simp only [specHist, specStep, ← hd, hl]

/-- what an operation must answer when `ms` are the messages appended so far: the statements of
`parse_msg_idx` (and `None` beyond the stored messages) and `skip_count_slice` -/
def expectedAns (ms : List Msg) : Op → Ans
  | .appendMsg _ => .done
  | .appendAll _ => .done
  | .parseMsg i => .res (if h : i < ms.length then .msg (carriedMsg ms[i]) else .none)
  | .parseAll skip count =>
    .all (match skip with
          | none => some (takeCount count (ms.map carriedMsg))
          | some s => if s ≤ ms.length then some (takeCount count ((ms.drop s).map carriedMsg)) else none)
  | .truncate _ => .cut

/-- the messages appended after an operation -/
def storedAfter (ms : List Msg) : Op → List Msg
  | .appendMsg m => ms ++ [m]
  | .appendAll l => ms ++ l
  | _ => ms

/-- the answers the property demands of a history, `ms` being the messages appended before it -/
def expectedHist (ms : List Msg) : List Op → List Ans
  | [] => []
  | op :: ops => expectedAns ms op :: expectedHist (storedAfter ms op) ops

/-- the messages appended by a history -/
def storedBy (ms : List Msg) : List Op → List Msg
  | [] => ms
  | op :: ops => storedBy (storedAfter ms op) ops

/-- operations of the property's histories: appends of valid messages, reads with count >= 1 -/
def ValidOp : Op → Prop
  | .appendMsg m => MsgValid m
  | .appendAll l => ∀ m ∈ l, MsgValid m
  | .parseMsg _ => True
  | .parseAll _ count => ∀ c, count = some c → 1 ≤ c
  | .truncate _ => False

instance (op : Op) : Decidable (ValidOp op) := by
  cases op with
  | appendMsg m => unfold ValidOp; infer_instance
  | appendAll l => unfold ValidOp; infer_instance
  | parseMsg i => unfold ValidOp; infer_instance
  | parseAll s count =>
    cases count with
    | none => exact isTrue (fun c h => by cases h)
    | some c =>
      by_cases h : 1 ≤ c
      · exact isTrue (fun c' h' => by cases h'; exact h)
      · exact isFalse (fun h' => h (h' c rfl))
  | truncate n => unfold ValidOp; infer_instance

/-- read operations (with count >= 1) -/
def ReadOp : Op → Prop
  | .parseMsg _ => True
  | .parseAll _ count => ∀ c, count = some c → 1 ≤ c
  | _ => False

/-- the capture file holding exactly the messages `ms` -/
def fileOf (ms : List Msg) : Bytes := recsBytes (ms.map (fun m => (stored m).1))

theorem fileOf_appendAll (ms : List Msg) (hv : ∀ m ∈ ms, MsgValid m) :
    appendAll ⟨[], 0⟩ ms = .ok ⟨fileOf ms, (fileOf ms).length⟩ := by
  have ha := appendAll_valid ms hv []
  simpa only [List.nil_append, List.length_nil, fileOf] using ha

theorem fileOf_append (a b : List Msg) : fileOf (a ++ b) = fileOf a ++ fileOf b := by
  simp only [fileOf, List.map_append, recsBytes_append]

theorem dumpAll_valid (l : List Msg) (hv : ∀ m ∈ l, MsgValid m) : dumpAll l = (none, fileOf l) := by
  induction l with
  | nil => rfl
  | cons m l ih =>
    have hd := (dump_valid m (hv m (List.mem_cons_self ..))).1
    have := ih (fun m' hm' => hv m' (List.mem_cons_of_mem _ hm'))
    simp only [dumpAll, hd, this, fileOf, List.map_cons, recsBytes_cons]

/-- a fresh reader on content made of the complete records of `st` followed by a cut tail -/
theorem fresh_read {data : Bytes} {st : List Msg} (c : Capture data (st.map stored)) (op : Op)
    (hr : ReadOp op) :
    (specStep data op).2 = data ∧
    ((specStep data op).1 = expectedAns st op ∨
      ∃ s cnt, op = .parseAll (some s) cnt ∧ st.length < s ∧ (specStep data op).1 = .all (some [])) := by
  cases op with
  | appendMsg m => exact absurd hr (by simp [ReadOp])
  | appendAll l => exact absurd hr (by simp [ReadOp])
  | truncate n => exact absurd hr (by simp [ReadOp])
  | parseMsg i =>
    by_cases hi : i < st.length
    · obtain ⟨f', hf'⟩ := parseMsg_idx c 0 i (by simpa using hi)
      refine ⟨by simp only [specStep, hf'], Or.inl ?_⟩
      simp only [specStep, hf', expectedAns, hi, dite_true, List.getElem_map, stored]
    · obtain ⟨f', hf'⟩ := parseMsg_beyond c 0 i (by simp; omega)
      refine ⟨by simp only [specStep, hf'], Or.inl ?_⟩
      simp only [specStep, hf', expectedAns, hi, dite_false]
  | parseAll skip count =>
    have hc : ∀ c, count = some c → 1 ≤ c := hr
    cases skip with
    | none =>
      obtain ⟨f', hf'⟩ := parseAll_noskip c 0 count
      refine ⟨by simp only [specStep, hf'], Or.inl ?_⟩
      simp only [specStep, hf', expectedAns, loopSpec_takeCount count _ hc, stored_msgs]
    | some s =>
      by_cases hs : s ≤ st.length
      · obtain ⟨f', hf'⟩ := parseAll_skip c 0 s count (by simpa using hs)
        refine ⟨by simp only [specStep, hf'], Or.inl ?_⟩
        simp only [specStep, hf', expectedAns, loopSpec_takeCount count _ hc, hs, if_true, ← List.map_drop,
          stored_msgs]
      · obtain ⟨f', hf'⟩ := parseAll_beyond c 0 s count (by simp; omega)
        rcases hf' with hf' | hf'
        · refine ⟨by simp only [specStep, hf'], Or.inl ?_⟩
          simp only [specStep, hf', expectedAns, hs, if_false]
        · exact ⟨by simp only [specStep, hf'], Or.inr ⟨s, count, rfl, by omega, by simp only [specStep, hf']⟩⟩

/-- on an uncut capture a skip beyond the stored messages is always the range error -/
theorem fresh_read_uncut (st : List Msg) (hv : ∀ m ∈ st, MsgValid m) (op : Op) (hr : ReadOp op) :
    specStep (fileOf st) op = (expectedAns st op, fileOf st) := by
  have c := capture_of st hv [] (Or.inl rfl)
  simp only [List.append_nil, stored_recs] at c
  obtain ⟨h2, h1⟩ := fresh_read c op hr
  rcases h1 with h1 | ⟨s, cnt, rfl, hs, _⟩
  · exact Prod.ext h1 h2
  · obtain ⟨f', hf'⟩ := seek2msg_beyond_eof c (by rw [stored_recs]) 0 s (by simpa using hs)
    have hns : ¬ s ≤ st.length := by omega
    simp only [specStep, parseAll, hf', bind, Except.bind, pure, Except.pure, Bool.false_eq_true,
      not_false_eq_true, if_true, expectedAns, hns, if_false, fileOf]

theorem specStep_valid (ms : List Msg) (hv : ∀ m ∈ ms, MsgValid m) (op : Op) (ho : ValidOp op) :
    specStep (fileOf ms) op = (expectedAns ms op, fileOf (storedAfter ms op)) ∧
    (∀ m ∈ storedAfter ms op, MsgValid m) := by
  cases op with
  | appendMsg m =>
    have hm : MsgValid m := ho
    have hd := (dump_valid m hm).1
    have h1 : fileOf [m] = (stored m).1.bytes := by
      simp only [fileOf, List.map_cons, List.map_nil, recsBytes, List.flatten_cons, List.flatten_nil, List.append_nil]
    refine ⟨?_, ?_⟩
    · simp only [specStep, hd, expectedAns, storedAfter, fileOf_append, h1]
    · intro m' hm'
      rcases List.mem_append.mp hm' with h | h
      · exact hv m' h
      · rw [List.mem_singleton.mp h]; exact hm
  | appendAll l =>
    have hl : ∀ m ∈ l, MsgValid m := ho
    refine ⟨?_, ?_⟩
    · simp only [specStep, dumpAll_valid l hl, expectedAns, storedAfter, fileOf_append]
    · intro m' hm'
      rcases List.mem_append.mp hm' with h | h
      · exact hv m' h
      · exact hl m' h
  | parseMsg i => exact ⟨fresh_read_uncut ms hv _ trivial, hv⟩
  | parseAll skip count => exact ⟨fresh_read_uncut ms hv _ ho, hv⟩
  | truncate n => exact absurd ho (by simp [ValidOp])

theorem specHist_valid : ∀ (ops : List Op) (ms : List Msg), (∀ m ∈ ms, MsgValid m) → (∀ op ∈ ops, ValidOp op) →
    specHist (fileOf ms) ops = (expectedHist ms ops, fileOf (storedBy ms ops)) ∧
    (∀ m ∈ storedBy ms ops, MsgValid m) := by
  intro ops
  induction ops with
  | nil => intro ms hv _; exact ⟨rfl, hv⟩
  | cons op ops ih =>
    intro ms hv ho
    obtain ⟨h1, hv'⟩ := specStep_valid ms hv op (ho op (List.mem_cons_self ..))
    obtain ⟨h2, hv''⟩ := ih (storedAfter ms op) hv' (fun o h => ho o (List.mem_cons_of_mem _ h))
    exact ⟨by simp only [specHist, h1, h2, expectedHist, storedBy], hv''⟩

/-- For every history of appends of valid messages and reads on one object (starting with the empty
capture): every `parse_msg(i)` returns the i-th of the messages appended so far (`None` beyond them),
every `parse_all(skip, count)` exactly the corresponding slice of the messages appended so far (`False`
for a skip beyond them) - whatever was read, missed or appended before -, and the file at the end is
byte for byte the file one `append_all` of all the messages produces. -/
theorem history_reads_stored (ops : List Op) (ho : ∀ op ∈ ops, ValidOp op) :
    ∃ fe, runHist ⟨[], 0⟩ ops = (expectedHist [] ops, some fe) ∧
      appendAll ⟨[], 0⟩ (storedBy [] ops) = .ok ⟨fe.data, fe.data.length⟩ := by
  obtain ⟨fe, h1, hd⟩ := runHist_spec ops ⟨[], 0⟩
  obtain ⟨h2, hv⟩ := specHist_valid ops [] (fun m h => by cases h) ho
  have h0 : fileOf [] = [] := rfl
  rw [h0] at h2
  simp only [h2] at h1 hd
  exact ⟨fe, h1, by rw [hd]; exact fileOf_appendAll _ hv⟩

/-- the same from any state of the object that holds the messages `ms` (cursor anywhere) -/
theorem history_reads_stored_from (ms : List Msg) (hv : ∀ m ∈ ms, MsgValid m) (pos : Nat) (ops : List Op)
    (ho : ∀ op ∈ ops, ValidOp op) :
    ∃ f fe, appendAll ⟨[], 0⟩ ms = .ok f ∧ runHist ⟨f.data, pos⟩ ops = (expectedHist ms ops, some fe) ∧
      appendAll ⟨[], 0⟩ (storedBy ms ops) = .ok ⟨fe.data, fe.data.length⟩ := by
  obtain ⟨fe, h1, hd⟩ := runHist_spec ops ⟨fileOf ms, pos⟩
  obtain ⟨h2, hv'⟩ := specHist_valid ops ms hv ho
  simp only [h2] at h1 hd
  exact ⟨_, fe, fileOf_appendAll ms hv, h1, by rw [hd]; exact fileOf_appendAll _ hv'⟩

/-- what a read on a cut file must answer, `st` being the messages completely written before the cut:
the answer for the stored list `st`; for a skip beyond them also the empty list (when the header of the
cut record survived) - no message, no exception -/
def CutAnswer (st : List Msg) (op : Op) (a : Ans) : Prop :=
  a = expectedAns st op ∨ ∃ s cnt, op = .parseAll (some s) cnt ∧ st.length < s ∧ a = .all (some [])

/-- every read of a list answers as `CutAnswer` demands -/
def CutAnswers (st : List Msg) : List Op → List Ans → Prop
  | [], [] => True
  | op :: ops, a :: as => CutAnswer st op a ∧ CutAnswers st ops as
  | _, _ => False

theorem specHist_reads {data : Bytes} {st : List Msg} (c : Capture data (st.map stored)) :
    ∀ (reads : List Op), (∀ op ∈ reads, ReadOp op) →
      (specHist data reads).2 = data ∧ CutAnswers st reads (specHist data reads).1 := by
  intro reads
  induction reads with
  | nil => intro _; exact ⟨rfl, trivial⟩
  | cons op reads ih =>
    intro hr
    obtain ⟨h2, h1⟩ := fresh_read c op (hr op (List.mem_cons_self ..))
    obtain ⟨ih2, ih1⟩ := ih (fun o h => hr o (List.mem_cons_of_mem _ h))
    simp only [specHist, h2]
    exact ⟨ih2, h1, ih1⟩

/-- Crash after any history: appends of valid messages and reads on one object, then the file is cut at
ANY byte offset and opened again, then any reads (repeated, out of range, in any order): the answers
before the crash are those of `history_reads_stored`; after it every read returns exactly what is due
for the messages completely written before the cut (`CompleteBefore`), never an exception. -/
theorem history_then_crash (pre reads : List Op) (cut : Nat) (ho : ∀ op ∈ pre, ValidOp op)
    (hr : ∀ op ∈ reads, ReadOp op) :
    ∃ fe k as, runHist ⟨[], 0⟩ (pre ++ .truncate cut :: reads) = (expectedHist [] pre ++ .cut :: as, some fe) ∧
      CompleteBefore (storedBy [] pre) cut k ∧
      CutAnswers ((storedBy [] pre).take k) reads as ∧
      (∃ f, appendAll ⟨[], 0⟩ (storedBy [] pre) = .ok f ∧ fe.data = f.data.take cut) := by
  obtain ⟨fe, h1, hd⟩ := runHist_spec (pre ++ .truncate cut :: reads) ⟨[], 0⟩
  obtain ⟨h2, hv⟩ := specHist_valid pre [] (fun m h => by cases h) ho
  have h0 : fileOf [] = [] := rfl
  rw [h0] at h2
  obtain ⟨f, k, ha, hk, c⟩ := cut_capture (storedBy [] pre) hv cut
  have hfd : f.data = fileOf (storedBy [] pre) := by
    have := fileOf_appendAll (storedBy [] pre) hv
    rw [ha] at this
    exact congrArg File.data (Except.ok.inj this)
  obtain ⟨h4, h3⟩ := specHist_reads c reads hr
  simp only [specHist_append, h2, specHist, specStep, ← hfd, h4] at h1 hd
  exact ⟨fe, k, _, h1, hk, h3, f, ha, hd⟩

/-- Crash exactly behind the k-th record (nothing of a later record survives), after any history of
appends and reads: the object opened on the cut file behaves for EVERY further history - further appends
included - as a capture holding the first k messages. -/
theorem history_crash_on_boundary (pre post : List Op) (k : Nat) (ho : ∀ op ∈ pre, ValidOp op)
    (hp : ∀ op ∈ post, ValidOp op) :
    ∃ fk fe, appendAll ⟨[], 0⟩ ((storedBy [] pre).take k) = .ok fk ∧
      runHist ⟨[], 0⟩ (pre ++ .truncate fk.data.length :: post)
        = (expectedHist [] pre ++ .cut :: expectedHist ((storedBy [] pre).take k) post, some fe) ∧
      appendAll ⟨[], 0⟩ (storedBy ((storedBy [] pre).take k) post) = .ok ⟨fe.data, fe.data.length⟩ := by
  obtain ⟨h2, hv⟩ := specHist_valid pre [] (fun m h => by cases h) ho
  have h0 : fileOf [] = [] := rfl
  rw [h0] at h2
  have hvk : ∀ m ∈ (storedBy [] pre).take k, MsgValid m := fun m hm => hv m (List.mem_of_mem_take hm)
  obtain ⟨h3, hv3⟩ := specHist_valid post _ hvk hp
  have hsplit : fileOf (storedBy [] pre)
      = fileOf ((storedBy [] pre).take k) ++ fileOf ((storedBy [] pre).drop k) := by
    rw [← fileOf_append, List.take_append_drop]
  have htake : (fileOf (storedBy [] pre)).take (fileOf ((storedBy [] pre).take k)).length
      = fileOf ((storedBy [] pre).take k) := by
    rw [hsplit, List.take_left]
  obtain ⟨fe, h1, hd⟩ := runHist_spec
    (pre ++ .truncate (fileOf ((storedBy [] pre).take k)).length :: post) ⟨[], 0⟩
  simp only [specHist_append, h2, specHist, specStep, htake, h3] at h1 hd
  exact ⟨_, fe, fileOf_appendAll _ hvk, h1, by rw [hd]; exact fileOf_appendAll _ hv3⟩

/-! ### non-vacuity -/

/-- a stored list with all classes of messages: v0 Tx, v1 Rx 8-PSK, NOPE indication -/
example : ∀ m ∈ ([.tx ⟨0, some 0, some 0, some 0, some (List.replicate 148 1)⟩,
      .rx ⟨1, some 2715647, some 7, some (-47), some (-1), Modulation.ofName? "Mod8PSK", false, some 1, some 7,
        some (-1280), some (List.replicate 444 (-127))⟩,
      .rx ⟨1, some 5, some 3, some (-120), some 0, none, true, none, none, some 1280, none⟩] : List Msg),
    MsgValid m := by decide +kernel

/-- a history with an out-of-range access and a partial read before further appends, then reads of the
new messages: the operations satisfy the hypotheses of `history_reads_stored` / `history_then_crash` -/
def exampleHist : List Op :=
  [.appendAll [.tx ⟨0, some 0, some 0, some 0, some (List.replicate 148 1)⟩,
               .rx ⟨1, some 5, some 3, some (-120), some 0, none, true, none, none, some 1280, none⟩],
   .parseMsg 5, .parseAll (some 3) none, .parseMsg 0,
   .appendMsg (.tx ⟨1, some 2715647, some 7, some 255, some (List.replicate 444 0)⟩),
   .parseMsg 2, .parseAll (some 2) (some 1), .parseAll none none]

example : ∀ op ∈ exampleHist, ValidOp op := by decide +kernel

/-- ... and the answers demanded are not trivial: `None`, `False`, the first message, then the message
appended after the failed accesses, by index and by skip -/
example : expectedHist [] exampleHist =
    [.done, .res .none, .all none,
     .res (.msg (.tx ⟨0, some 0, some 0, some 0, some (List.replicate 148 1)⟩)),
     .done,
     .res (.msg (.tx ⟨1, some 2715647, some 7, some 255, some (List.replicate 444 0)⟩)),
     .all (some [.tx ⟨1, some 2715647, some 7, some 255, some (List.replicate 444 0)⟩]),
     .all (some [.tx ⟨0, some 0, some 0, some 0, some (List.replicate 148 1)⟩,
                 .rx (C01.carried ⟨1, some 5, some 3, some (-120), some 0, none, true, none, none, some 1280, none⟩),
                 .tx ⟨1, some 2715647, some 7, some 255, some (List.replicate 444 0)⟩])] := by
  decide +kernel

example : ∀ op ∈ ([.parseMsg 0, .parseMsg 7, .parseAll (some 1) (some 2), .parseAll none none] : List Op), ReadOp op := by
  intro op h
  simp only [List.mem_cons, List.mem_nil_iff, or_false] at h
  rcases h with rfl | rfl | rfl | rfl <;> simp [ReadOp]

end OsmoVerif.Props.C15
