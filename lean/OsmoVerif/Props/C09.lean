/-
C09 — Clock source: consecutive frame numbers, one per frame, no accumulated drift.
Property theorems only; model: `OsmoVerif.Model.Clck`, lemmas: `OsmoVerif.Lemmas.Clck`.

Reading guide.  `worker c start t0 ds` is the real `_worker` entered at virtual time `t0` with
`clck_src = start`; `ds` is the scripted handler duration of every tick (arbitrary naturals, in
ns: below, at or above one tick period), its length is the number of ticks before the breaker.
`(worker …).1[k]?` is tick k: `time` = the virtual time `T k` at which its `wait` returned and
`send_clck_ind` (indications, then handler) ran, `fn` = the frame number handed to the handler,
`sends` = the payloads per link, `call` = the handler call, `dt` = the argument of its `wait`.
`dur c d` = `d` if a handler is installed, else 0.
All statements hold for every tick period `c.tTick`; `t_tick_is_frame` pins the period of the
current tree.
-/
import OsmoVerif.Lemmas.Clck

namespace OsmoVerif.Props.C09
open OsmoVerif OsmoVerif.Clck

/-- one TDMA frame period, 4.615 ms, in ns (the property text) -/
def framePeriodNs : Nat := 4615000

/-- the hyperframe the property speaks about -/
def hyperframe : Nat := 2715648

/-- the octets of `"IND CLOCK "` -/
def indText : List Nat := [73, 78, 68, 32, 67, 76, 79, 67, 75, 32]

theorem indText_is_ascii : indText = "IND CLOCK ".toList.map Char.toNat := by decide +kernel

/-- `'IND CLOCK <fn>'` NUL-terminated, as octets (the property text) -/
def indication (fn : Nat) : List Nat := indText ++ decDigits fn ++ [0]

/-- F4: the tick period the worker of the current tree really uses (measured spacing of
zero-cost ticks under the virtual clock) is one TDMA frame period, also for the first tick. -/
theorem t_tick_is_frame : Gen.tTickNs = framePeriodNs ∧ Gen.clckFirstOffsetNs = framePeriodNs := by
  decide +kernel

/-- the regenerated constants: counter modulus (measured on the real `send_clck_ind`) and
`GSM_HYPERFRAME` are the hyperframe; defaults of the constructor; text of the indication. -/
theorem clck_consts :
    Gen.clckWrap = hyperframe ∧ Gen.clckGsmHyperframe = hyperframe ∧
    Gen.clckDefaultIndPeriod = 102 ∧ Gen.clckDefaultStart = 0 ∧
    (∀ fn, payload fn = indication fn) := by
  refine ⟨by decide +kernel, by decide +kernel, by decide +kernel, by decide +kernel, ?_⟩
  intro fn
  simp only [payload, indication]
  have h1 : Gen.clckIndPrefix = indText := by decide +kernel
  have h2 : Gen.clckIndSuffix = [0] := by decide +kernel
  rw [h1, h2]

/-! ### the worker runs: one tick per scripted duration, no exception -/

/-- with a positive indication period the worker fires exactly one tick per scripted duration
and leaves through the breaker (it never raises). -/
theorem runs_every_tick (c : Cfg) (start : Nat) (t0 : Int) (ds : List Nat) (hp : 0 < c.period) :
    (worker c start t0 ds).1.length = ds.length ∧
    ∃ dt t src, (worker c start t0 ds).2 = .broke dt t src :=
  ⟨loop_length c hp ds _, loop_end c hp ds _⟩

/-- the excluded configuration: `ind_period = 0` makes `clck_src % ind_period` raise
`ZeroDivisionError` in the first tick, before anything is sent or called. -/
theorem period_zero_raises (c : Cfg) (start : Nat) (t0 : Int) (d : Nat) (ds : List Nat)
    (hp : c.period = 0) :
    worker c start t0 (d :: ds) =
      ([], .raised (c.tTick : Int) (t0 + (c.tTick : Int)) start [] none "ZeroDivisionError") := by
  simp only [worker]
  rw [loop]
  have hn : (sendClckInd c start) = { sends := [], call := none, next := .error "ZeroDivisionError" } := by
    unfold sendClckInd; rw [if_pos hp]
  simp only [hn]
  have h2 : (deadline c { tNext := t0, now := t0, src := start }).2 = (c.tTick : Int) := by
    rw [deadline_snd]; simp only; omega
  rw [h2]

/-! ### timing -/

/-- the first tick fires one tick period after the worker is entered, with the start frame. -/
theorem first_tick (c : Cfg) (start : Nat) (t0 : Int) (ds : List Nat) (a : Tick) (hp : 0 < c.period)
    (ha : (worker c start t0 ds).1[0]? = some a) :
    a.time = t0 + (c.tTick : Int) ∧ a.fn = start ∧ a.dt = (c.tTick : Int) := by
  have h := loop_head c hp ds _ a ha
  subst h
  simp only [tickOf]
  rw [deadline_snd]
  simp only
  refine ⟨?_, trivial, ?_⟩ <;> omega

/-- **tick spacing.**  Tick k+1 fires exactly one tick period after tick k *fired* (not after its
handler returned), unless the handler of tick k overran the period: then it fires the moment
the handler returns.  `T (k+1) − T k = max t_tick (d k)`. -/
theorem tick_spacing (c : Cfg) (start : Nat) (t0 : Int) (ds : List Nat) (k : Nat) (a b : Tick) (d : Nat)
    (hp : 0 < c.period)
    (ha : (worker c start t0 ds).1[k]? = some a) (hb : (worker c start t0 ds).1[k + 1]? = some b)
    (hd : ds[k]? = some d) :
    b.time - a.time = max (c.tTick : Int) (dur c d : Int) := by
  have h := (loop_consecutive c hp ds _ k a b d ha hb hd).1
  omega

/-- never a catch-up burst: two ticks are never closer than one tick period, whatever the
handler durations were before. -/
theorem no_catch_up (c : Cfg) (start : Nat) (t0 : Int) (ds : List Nat) (k : Nat) (a b : Tick)
    (hp : 0 < c.period)
    (ha : (worker c start t0 ds).1[k]? = some a) (hb : (worker c start t0 ds).1[k + 1]? = some b) :
    (c.tTick : Int) ≤ b.time - a.time := by
  have hk : k < ds.length := by
    have := lt_length_of_getElem? ha
    rw [(runs_every_tick c start t0 ds hp).1] at this
    exact this
  obtain ⟨d, hd⟩ := getElem?_of_lt_length hk
  have h := tick_spacing c start t0 ds k a b d hp ha hb hd
  omega

/-- the argument of every `wait` is non-negative, and it is what is left of the period after
the previous handler: `dt (k+1) = max 0 (t_tick − d k)`. -/
theorem wait_argument (c : Cfg) (start : Nat) (t0 : Int) (ds : List Nat) (k : Nat) (a b : Tick) (d : Nat)
    (hp : 0 < c.period)
    (ha : (worker c start t0 ds).1[k]? = some a) (hb : (worker c start t0 ds).1[k + 1]? = some b)
    (hd : ds[k]? = some d) :
    0 ≤ a.dt ∧ b.dt = max 0 ((c.tTick : Int) - (dur c d : Int)) :=
  ⟨(loop_tick_local c hp ds _ k a ha).2.2, (loop_consecutive c hp ds _ k a b d ha hb hd).2.2⟩

/-- grid lemma: from any tick i on, as long as no handler overruns the period, tick i+m fires
exactly m periods after tick i. -/
theorem no_drift_from (c : Cfg) (start : Nat) (t0 : Int) (ds : List Nat) (hp : 0 < c.period)
    (i : Nat) (a : Tick) (ha : (worker c start t0 ds).1[i]? = some a) :
    ∀ (m : Nat) (b : Tick), (worker c start t0 ds).1[i + m]? = some b →
      (∀ j d, i ≤ j → j < i + m → ds[j]? = some d → dur c d ≤ c.tTick) →
      b.time = a.time + (m : Int) * (c.tTick : Int) := by
  intro m
  induction m with
  | zero =>
    intro b hb _
    simp only [Nat.add_zero] at hb
    rw [ha] at hb
    simp only [Option.some.injEq] at hb
    subst hb
    omega
  | succ m ih =>
    intro b hb hle
    have hb' : (worker c start t0 ds).1[(i + m) + 1]? = some b := hb
    obtain ⟨p, hpk⟩ := getElem?_prev hb'
    have hk : i + m < ds.length := by
      have := lt_length_of_getElem? hpk
      rw [(runs_every_tick c start t0 ds hp).1] at this
      exact this
    obtain ⟨d, hd⟩ := getElem?_of_lt_length hk
    have hsp := tick_spacing c start t0 ds (i + m) p b d hp hpk hb' hd
    have hdle : dur c d ≤ c.tTick := hle (i + m) d (by omega) (by omega) hd
    have hprev := ih p hpk (fun j d hj hj' hjd => hle j d hj (by omega) hjd)
    have hmax : max (c.tTick : Int) (dur c d : Int) = (c.tTick : Int) := by omega
    rw [hmax] at hsp
    rw [Int.natCast_succ, Int.add_mul]
    omega

/-- **no drift.**  If none of the first k handlers overran, tick k fires exactly k periods after
tick 0, i.e. k+1 periods after the worker was entered: the time spent in the handlers never
accumulates. -/
theorem no_drift (c : Cfg) (start : Nat) (t0 : Int) (ds : List Nat) (k : Nat) (a0 ak : Tick)
    (hp : 0 < c.period)
    (h0 : (worker c start t0 ds).1[0]? = some a0) (hk : (worker c start t0 ds).1[k]? = some ak)
    (hle : ∀ d ∈ ds.take k, dur c d ≤ c.tTick) :
    ak.time = a0.time + (k : Int) * (c.tTick : Int) ∧
    ak.time = t0 + ((k : Int) + 1) * (c.tTick : Int) := by
  have hk' : (worker c start t0 ds).1[0 + k]? = some ak := by rw [Nat.zero_add]; exact hk
  have h := no_drift_from c start t0 ds hp 0 a0 h0 k ak hk'
    (fun j d _ hj hjd => hle d (mem_take_of_getElem? hjd (by omega)))
  have hf := (first_tick c start t0 ds a0 hp h0).1
  refine ⟨h, ?_⟩
  rw [h, hf, Int.add_mul]
  omega

/-- **resynchronisation.**  If the handler of tick k overran the period, tick k+1 fires the
moment that handler returns (`wait(0)`), and the grid restarts there: as long as the following
handlers stay within the period, tick k+1+m fires exactly m periods after tick k+1 (the lost
time is not made up by early ticks). -/
theorem resync_after_overrun (c : Cfg) (start : Nat) (t0 : Int) (ds : List Nat) (k : Nat) (a b : Tick) (d : Nat)
    (hp : 0 < c.period)
    (ha : (worker c start t0 ds).1[k]? = some a) (hb : (worker c start t0 ds).1[k + 1]? = some b)
    (hd : ds[k]? = some d) (hover : c.tTick < dur c d) :
    b.time = a.time + (dur c d : Int) ∧ b.dt = 0 ∧
    ∀ (m : Nat) (e : Tick), (worker c start t0 ds).1[k + 1 + m]? = some e →
      (∀ d' ∈ (ds.drop (k + 1)).take m, dur c d' ≤ c.tTick) →
      e.time = b.time + (m : Int) * (c.tTick : Int) := by
  have h := loop_consecutive c hp ds _ k a b d ha hb hd
  refine ⟨by omega, by omega, ?_⟩
  intro m e he hle
  exact no_drift_from c start t0 ds hp (k + 1) b hb m e he
    (fun j d' hj hj' hjd => hle d' (mem_drop_take_of_getElem? hjd hj hj'))

/-- closed form: tick k fires one period after the worker was entered plus, for every earlier
tick, one period or the handler time if that was longer. -/
theorem tick_time (c : Cfg) (start : Nat) (t0 : Int) (ds : List Nat) (hp : 0 < c.period) :
    ∀ (k : Nat) (a : Tick), (worker c start t0 ds).1[k]? = some a →
      a.time = t0 + (c.tTick : Int) +
        (((ds.take k).map fun d => max c.tTick (dur c d)).sum : Nat) := by
  intro k
  induction k with
  | zero =>
    intro a ha
    have := (first_tick c start t0 ds a hp ha).1
    simp only [List.take_zero, List.map_nil, List.sum_nil]
    omega
  | succ k ih =>
    intro b hb
    obtain ⟨a, ha⟩ := getElem?_prev hb
    have hk : k < ds.length := by
      have := lt_length_of_getElem? ha
      rw [(runs_every_tick c start t0 ds hp).1] at this
      exact this
    obtain ⟨d, hd⟩ := getElem?_of_lt_length hk
    have hsp := tick_spacing c start t0 ds k a b d hp ha hb hd
    have hprev := ih a ha
    rw [List.take_add_one, hd]
    simp only [Option.toList_some, List.map_append, List.map_cons, List.map_nil, List.sum_append,
      List.sum_cons, List.sum_nil, Nat.add_zero]
    omega

/-! ### frame numbers, indications, handler calls -/

/-- **frame numbers.**  Tick k carries `(start + k) mod 2715648`; this includes the wrap
2715647 → 0 (`start = 2715647`, k = 1). -/
theorem fn_sequence (c : Cfg) (start : Nat) (t0 : Int) (ds : List Nat) (hp : 0 < c.period)
    (hs : start < hyperframe) :
    ∀ (k : Nat) (a : Tick), (worker c start t0 ds).1[k]? = some a → a.fn = (start + k) % hyperframe := by
  have hw : Gen.clckWrap = hyperframe := clck_consts.1
  intro k
  induction k with
  | zero =>
    intro a ha
    have := (first_tick c start t0 ds a hp ha).2.1
    simp only [hyperframe] at hs ⊢
    omega
  | succ k ih =>
    intro b hb
    obtain ⟨a, ha⟩ := getElem?_prev hb
    have hk : k < ds.length := by
      have := lt_length_of_getElem? ha
      rw [(runs_every_tick c start t0 ds hp).1] at this
      exact this
    obtain ⟨d, hd⟩ := getElem?_of_lt_length hk
    have h := (loop_consecutive c hp ds _ k a b d ha hb hd).2.1
    have hprev := ih a ha
    rw [h, hprev, hw]
    simp only [hyperframe]
    omega

/-- without the range hypothesis on the start frame: every tick after the first is reduced. -/
theorem fn_sequence_any_start (c : Cfg) (start : Nat) (t0 : Int) (ds : List Nat) (hp : 0 < c.period) :
    ∀ (k : Nat) (a : Tick), (worker c start t0 ds).1[k]? = some a →
      a.fn = if k = 0 then start else (start + k) % hyperframe := by
  have hw : Gen.clckWrap = hyperframe := clck_consts.1
  intro k
  induction k with
  | zero => intro a ha; exact (first_tick c start t0 ds a hp ha).2.1
  | succ k ih =>
    intro b hb
    obtain ⟨a, ha⟩ := getElem?_prev hb
    have hk : k < ds.length := by
      have := lt_length_of_getElem? ha
      rw [(runs_every_tick c start t0 ds hp).1] at this
      exact this
    obtain ⟨d, hd⟩ := getElem?_of_lt_length hk
    have h := (loop_consecutive c hp ds _ k a b d ha hb hd).2.1
    have hprev := ih a ha
    have e : (if k + 1 = 0 then start else (start + (k + 1)) % hyperframe) =
        (start + (k + 1)) % hyperframe := if_neg (by omega)
    rw [e, h, hprev, hw]
    simp only [hyperframe]
    split <;> omega

/-- **indications.**  At tick k every attached link, in list order, is sent exactly one
`"IND CLOCK <fn>\0"` if the frame number is divisible by the indication period, and nothing is
sent otherwise. -/
theorem ind_iff_period (c : Cfg) (start : Nat) (t0 : Int) (ds : List Nat) (k : Nat) (a : Tick)
    (hp : 0 < c.period) (ha : (worker c start t0 ds).1[k]? = some a) :
    a.sends = if a.fn % c.period = 0 then c.links.map (fun l => (l, indication a.fn)) else [] := by
  have h := (loop_tick_local c hp ds _ k a ha).1
  rw [h, sendClckInd_sends c a.fn hp]
  have hpay : ∀ fn, payload fn = indication fn := clck_consts.2.2.2.2
  simp only [hpay]

/-- Indications follow the frame NUMBER, not the tick count: whatever the indication period (also one that
does not divide the hyperframe) and the start frame, the tick on which the frame number wraps to 0 sends
`IND CLOCK 0` to every link, and after the wrap the indications are again exactly at the multiples of the
period (`ind_iff_period` with `fn_sequence`). -/
theorem ind_at_wrap (c : Cfg) (start : Nat) (t0 : Int) (ds : List Nat) (k : Nat) (a : Tick)
    (hp : 0 < c.period) (hs : start < hyperframe) (ha : (worker c start t0 ds).1[k]? = some a)
    (hk : (start + k) % hyperframe = 0) :
    a.fn = 0 ∧ a.sends = c.links.map (fun l => (l, indication 0)) := by
  have hfn : a.fn = 0 := by rw [fn_sequence c start t0 ds hp hs k a ha, hk]
  refine ⟨hfn, ?_⟩
  rw [ind_iff_period c start t0 ds k a hp ha, hfn, Nat.zero_mod]
  simp only [if_true]

/-- **handler.**  The handler is called exactly once in every tick — whether or not an
indication is due — with the frame number of the tick, after the indications went out. -/
theorem handler_once_per_tick (c : Cfg) (start : Nat) (t0 : Int) (ds : List Nat) (k : Nat) (a : Tick)
    (hp : 0 < c.period) (hh : c.handler = true) (ha : (worker c start t0 ds).1[k]? = some a) :
    a.call = some a.fn ∧
    a.events.filter Event.isHandler = [Event.handler a.fn a.time] ∧
    a.events = Event.wait a.dt a.time :: (a.sends.map fun p => Event.send p.1 a.time p.2) ++
      [Event.handler a.fn a.time] := by
  have h := (loop_tick_local c hp ds _ k a ha).2.1
  rw [sendClckInd_call c a.fn hp, hh, if_pos rfl] at h
  have hf : ∀ l : List (Nat × List Nat),
      (l.map fun p => Event.send p.1 a.time p.2).filter Event.isHandler = [] := by
    intro l
    induction l with
    | nil => rfl
    | cons x xs ih => simp only [List.map_cons, List.filter_cons, Event.isHandler, ih]; rfl
  refine ⟨h, ?_, ?_⟩
  · simp only [Tick.events, h, callEvents, List.filter_cons, List.filter_append, Event.isHandler, hf]
    rfl
  · simp only [Tick.events, h, callEvents]

/-- without a handler nothing is called (and no scripted handler time passes). -/
theorem no_handler_no_call (c : Cfg) (start : Nat) (t0 : Int) (ds : List Nat) (k : Nat) (a : Tick)
    (hp : 0 < c.period) (hh : c.handler = false) (ha : (worker c start t0 ds).1[k]? = some a) :
    a.call = none := by
  have h := (loop_tick_local c hp ds _ k a ha).2.1
  rw [sendClckInd_call c a.fn hp, hh] at h
  exact h

/-! ### links attached and detached while the generator runs -/

theorem loopL_cons (c : Cfg) (s : Loop) (d : Nat) (ls : List Nat) (sc : List (Nat × List Nat)) (hp : 0 < c.period) :
    loopL c s ((d, ls) :: sc) =
      ({ tickOf c s with sends := (sendClckInd { c with links := ls } s.src).sends } :: (loopL c (next c s d) sc).1,
       (loopL c (next c s d) sc).2) := by
  rw [loopL]
  have hp' : 0 < ({ c with links := ls } : Cfg).period := hp
  simp only [sendClckInd_next { c with links := ls } s.src hp']
  have hc : (sendClckInd { c with links := ls } s.src).call = (sendClckInd c s.src).call := by
    rw [sendClckInd_call _ _ hp', sendClckInd_call _ _ hp]
  simp only [hc]
  rfl

/-- **every attached link, at the time of the tick.**  `clck_links` may be modified in place
between two ticks (a transceiver powered on or off): at tick k the indication goes to exactly the
links the list holds when that tick fires, in list order — a link attached after `start()` is
served from the next due frame on, a detached one receives nothing more. -/
theorem ind_to_links_attached_at_tick (c : Cfg) (hp : 0 < c.period) :
    ∀ (sc : List (Nat × List Nat)) (s : Loop) (k : Nat) (a : Tick), (loopL c s sc).1[k]? = some a →
      ∃ d ls, sc[k]? = some (d, ls) ∧
        a.sends = if a.fn % c.period = 0 then ls.map (fun l => (l, indication a.fn)) else [] := by
  intro sc
  induction sc with
  | nil => intro s k a h; rw [loopL] at h; simp at h
  | cons x sc ih =>
    intro s k a h
    obtain ⟨d, ls⟩ := x
    rw [loopL_cons c s d ls sc hp] at h
    cases k with
    | zero =>
      simp only [List.getElem?_cons_zero, Option.some.injEq] at h
      refine ⟨d, ls, rfl, ?_⟩
      subst h
      have hp' : 0 < ({ c with links := ls } : Cfg).period := hp
      have hpay : ∀ fn, payload fn = indication fn := clck_consts.2.2.2.2
      simp only [sendClckInd_sends _ _ hp', hpay, tickOf]
      rfl
    | succ k =>
      simp only [List.getElem?_cons_succ] at h
      obtain ⟨d', ls', h1, h2⟩ := ih _ k a h
      exact ⟨d', ls', by simpa using h1, h2⟩

/-- **the links do not influence the clock.**  When ticks fire, with which frame numbers, what the
handler is called with and how the worker ends is the same whatever is attached or detached on
the way: every timing theorem above (`tick_spacing`, `no_drift`, `resync_after_overrun`,
`fn_sequence`, `handler_once_per_tick`) holds unchanged for a run with changing links. -/
theorem links_do_not_influence_timing (c : Cfg) (hp : 0 < c.period) :
    ∀ (sc : List (Nat × List Nat)) (s : Loop),
      (loopL c s sc).1.map Tick.timing = (loop c s (sc.map Prod.fst)).1.map Tick.timing ∧
      (loopL c s sc).2 = (loop c s (sc.map Prod.fst)).2 := by
  intro sc
  induction sc with
  | nil => intro s; rw [loopL]; simp only [List.map_nil]; rw [loop]; exact ⟨rfl, rfl⟩
  | cons x sc ih =>
    intro s
    obtain ⟨d, ls⟩ := x
    rw [loopL_cons c s d ls sc hp]
    simp only [List.map_cons]
    rw [loop_cons c s d _ hp]
    obtain ⟨h1, h2⟩ := ih (next c s d)
    exact ⟨by simp only [List.map_cons, h1]; rfl, h2⟩

/-- with the list left alone the run is the one of the theorems above -/
theorem constant_links (c : Cfg) (hp : 0 < c.period) :
    ∀ (ds : List Nat) (s : Loop), loopL c s (ds.map fun d => (d, c.links)) = loop c s ds := by
  intro ds
  induction ds with
  | nil => intro s; rw [List.map_nil, loopL, loop]
  | cons d ds ih =>
    intro s
    rw [List.map_cons, loopL_cons c s d _ _ hp, loop_cons c s d ds hp, ih]
    cases c
    rfl

/-- non-vacuity: link 7 attached before the third tick, link 3 detached before the fourth -/
example :
    ((workerL { tTick := Gen.tTickNs, period := 1, links := [3], handler := true } 5 0
        [(0, [3]), (0, [3]), (0, [3, 7]), (0, [7])]).1.map fun k => k.sends.map Prod.fst)
      = [[3], [3], [3, 7], [7]] := by decide +kernel

/-- the indication can be parsed back: it ends with its only NUL octet and the digits between
`"IND CLOCK "` and the NUL are the decimal frame number. -/
theorem indication_wellformed (fn : Nat) :
    (indication fn).take 10 = indText ∧
    decValue (((indication fn).drop 10).dropLast) = fn ∧
    (indication fn).getLast? = some 0 ∧
    (∀ x ∈ (indication fn).dropLast, x ≠ 0) := by
  have hpre : indText = [73, 78, 68, 32, 67, 76, 79, 67, 75, 32] := rfl
  have hdig := decDigitsAux_digits fn fn
  refine ⟨?_, ?_, ?_, ?_⟩
  · simp only [indication, hpre, List.cons_append, List.nil_append, List.take_succ_cons, List.take_zero]
  · simp only [indication, hpre, List.cons_append, List.nil_append, List.drop_succ_cons, List.drop_zero,
      List.dropLast_concat]
    exact decValue_decDigitsAux fn fn (Nat.le_refl _)
  · simp only [indication, List.getLast?_append, List.getLast?_singleton, Option.some_or]
  · intro x hx
    simp only [indication, hpre, List.dropLast_concat] at hx
    rcases List.mem_append.1 hx with h | h
    · simp only [List.mem_cons, List.not_mem_nil, or_false] at h
      omega
    · have := hdig x h
      omega

/-! ### start / stop -/

/-- **restart.**  Whatever state the object is in, `stop()` followed by `start()` runs a worker
that is indistinguishable from a fresh one: it begins at the configured start frame, one period
after `start()`; hence every statement above holds again for the new run. -/
theorem restart (c : Cfg) (o : Obj) (ds : List Nat) :
    (step c (step c o .stop).1 (.start ds)).2 =
      .ran (worker c o.start o.now ds).1 (worker c o.start o.now ds).2 := by
  simp only [step, Bool.false_eq_true, if_false]

/-- `stop(); start()` after an arbitrary history of operations: the first frame number handed
out is the start frame, the first tick is one period after the call. -/
theorem restart_after_history (c : Cfg) (o : Obj) (ops : List Op) (d : Nat) (ds : List Nat)
    (hp : 0 < c.period) :
    ∃ ticks e a, (history c o (ops ++ [.stop, .start (d :: ds)])).2.getLast? = some (.ran ticks e) ∧
      ticks[0]? = some a ∧ a.fn = (history c o ops).1.start ∧
      a.time = (history c o ops).1.now + (c.tTick : Int) := by
  let o' := (history c o ops).1
  have hlen : 0 < (worker c o'.start o'.now (d :: ds)).1.length := by
    rw [(runs_every_tick c _ _ _ hp).1]; simp only [List.length_cons]; omega
  obtain ⟨a, ha⟩ := getElem?_of_lt_length hlen
  have hf := first_tick c o'.start o'.now (d :: ds) a hp ha
  refine ⟨(worker c o'.start o'.now (d :: ds)).1, (worker c o'.start o'.now (d :: ds)).2, a, ?_, ha, hf.2.1, hf.1⟩
  rw [history_append]
  simp only [history, step, Bool.false_eq_true, if_false]
  rw [List.getLast?_append]
  simp only [List.getLast?_cons_cons, List.getLast?_singleton, Option.some_or]
  rfl

/-- `start()` while a thread exists fails its assertion and changes nothing: there are never
two workers. -/
theorem no_second_thread (c : Cfg) (o : Obj) (ds : List Nat) (h : o.thread = true) :
    step c o (.start ds) = (o, .assertionError) := by
  simp only [step, h, if_true]

/-! ### non-vacuity -/

/-- the hypotheses are met by a non-trivial run: period 2, two links, start at the last frame of
the hyperframe, handler durations below, at and above one period; the observed ticks show the
wrap, the indication at even frames only, the unchanged grid and the resynchronisation. -/
example :
    let c : Cfg := { tTick := 4615000, period := 2, links := [0, 1], handler := true }
    let r := worker c 2715647 1000 [0, 4614999, 4615000, 9000000, 0]
    0 < c.period ∧ 2715647 < hyperframe ∧
    r.1.map (fun a => (a.fn, a.time, a.sends.length)) =
      [(2715647, 4616000, 0), (0, 9231000, 2), (1, 13846000, 0), (2, 18461000, 2), (3, 27461000, 0)] ∧
    r.2 = .broke 4615000 32076000 4 := by
  decide +kernel

example : indication 2715647 =
    [73, 78, 68, 32, 67, 76, 79, 67, 75, 32, 50, 55, 49, 53, 54, 52, 55, 0] := by decide +kernel

example :
    let c : Cfg := { tTick := 4615000, period := 1, links := [7], handler := true }
    (history c (Obj.init 5 0) [.start [1, 2], .start [], .stop, .start [0]]).2.map
      (fun o => match o with
        | .ran ticks _ => ticks.map (·.fn)
        | .assertionError => [99]
        | .ok => []) = [[5, 6], [99], [], [5]] := by
  decide +kernel

end OsmoVerif.Props.C09
