/-
Line-protocol driver over the executable models.  One request per line,
one canonical answer per line; unknown or malformed requests answer `bad-op`
(never a default value).
-/
import OsmoVerif.Driver.GsmTime

open OsmoVerif.Driver

def dispatch (toks : List String) : Option String :=
  match toks with
  | [] => none
  | v :: _ =>
    if v.startsWith "gt." then GsmTime.handle toks
    else none

partial def loop (hin : IO.FS.Stream) (hout : IO.FS.Stream) : IO Unit := do
  let line ← hin.getLine
  if line.isEmpty then return ()
  let toks := (line.trimAscii.toString.splitOn " ").filter (· ≠ "")
  match dispatch toks with
  | some out => hout.putStrLn out
  | none => hout.putStrLn "bad-op"
  loop hin hout

def main : IO Unit := do
  let hin ← IO.getStdin
  let hout ← IO.getStdout
  loop hin hout
  hout.flush
