import OsmoVerif.Model.RandBurst
import OsmoVerif.Spec.WorldRouting
open OsmoVerif OsmoVerif.RandBurst

theorem randBits_some {n : Nat} {s d r : List Nat} (h : randBits n s = some (d, r)) :
    d = s.take n ∧ r = s.drop n ∧ n ≤ s.length ∧ d.length = n := by
  unfold randBits at h
  split at h
  · cases h
  · rename_i hn
    simp only [Option.some.injEq, Prod.mk.injEq] at h
    refine ⟨h.1.symm, h.2.symm, by omega, ?_⟩
    rw [← h.1, List.length_take]; omega

theorem one_elem {d : List Nat} (h : d.length = 1) : ∃ x, d = [x] := by
  match d, h with
  | [x], _ => exact ⟨x, rfl⟩

theorem choice_mem {α : Type} {l : List α} {s r : List Nat} {x : α} (h : choice l s = some (x, r)) : x ∈ l := by
  unfold choice at h
  split at h
  · cases h
  · split at h
    · cases h
    · simp only [Option.map_eq_some_iff, Prod.mk.injEq] at h
      obtain ⟨y, hy, rfl, _⟩ := h
      exact List.mem_of_getElem? hy

theorem tscOr_cases {tsc : Option TsEntry} {bt : String} {s r : List Nat} {e : TsEntry}
    (h : tscOr tsc bt s = some (e, r)) : tsc = some e ∨ (tsc = none ∧ e ∈ seqsOf bt) := by
  unfold tscOr at h
  split at h
  · simp only [Option.some.injEq, Prod.mk.injEq] at h; exact .inl (by rw [h.1])
  · exact .inr ⟨rfl, choice_mem h⟩

theorem gen_nb_inv (tsc : Option TsEntry) (s b rest : List Nat) (h : genNb tsc s = some (b, rest)) :
    ∃ e d1 s1 s2 d2, (tsc = some e ∨ (tsc = none ∧ e ∈ seqsOf "NORMAL")) ∧ d1.length = 57 ∧ d2.length = 57 ∧
      b = Spec.nbLayout d1 s1 e.seq s2 d2 := by
  simp only [genNb, bind, Option.bind] at h
  split at h
  · cases h
  rename_i _ _ r1 h1
  simp only at h
  split at h
  · cases h
  rename_i _ _ r2 h2
  simp only at h
  split at h
  · cases h
  rename_i _ _ r3 h3
  simp only at h
  split at h
  · cases h
  rename_i _ _ r4 h4
  simp only at h
  split at h
  · cases h
  rename_i _ _ r5 h5
  simp only [pure, Option.some.injEq, Prod.mk.injEq] at h
  obtain ⟨d1, q1⟩ := r1; obtain ⟨f1, q2⟩ := r2; obtain ⟨e, q3⟩ := r3; obtain ⟨f2, q4⟩ := r4; obtain ⟨d2, q5⟩ := r5
  obtain ⟨x1, rfl⟩ := one_elem (randBits_some h2).2.2.2
  obtain ⟨x2, rfl⟩ := one_elem (randBits_some h4).2.2.2
  refine ⟨e, d1, x1, x2, d2, tscOr_cases h3, (randBits_some h1).2.2.2, (randBits_some h5).2.2.2, ?_⟩
  rw [← h.1]
  simp only [Spec.nbLayout, TsEntry.seq, List.replicate, List.append_assoc]
