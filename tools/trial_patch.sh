#!/bin/bash
# tools/trial_patch.sh <Cxx> <patch.diff> [--keep] [check args...]: run the check of property Cxx against a scratch worktree of /repo with
# the patch applied (private lake project and evidence), print its verdict lines, remove the scratch area
P=$1; PATCH=$(readlink -f "$2"); shift 2
KEEP=0; [ "${1:-}" = "--keep" ] && { KEEP=1; shift; }
B=/work/trial/tp-$P-$$
mkdir -p $B && git -C /repo worktree add -q --detach $B/repo HEAD && cp -a /verif/lean $B/lean || exit 2
git -C $B/repo apply "$PATCH" || { echo "patch does not apply"; git -C /repo worktree remove --force $B/repo; rm -rf $B; exit 2; }
cd /verif && VERIF_LEAN=$B/lean VERIF_TRIAL_EVIDENCE=$B/evidence VERIF_REPO=$B/repo ./check $P --tier quick "$@" 2>&1 | grep -E "VIOLATION|tier=|INTERNAL|TIMEOUT|Traceback|NOTE|KNOWN" | cut -c1-400
if [ $KEEP = 1 ]; then echo "kept: $B"; else git -C /repo worktree remove --force $B/repo; rm -rf $B; git -C /repo worktree prune; fi
