#!/venv/bin/python
# tools/accept_harmless.py <Cxx> [check ids...]: false-alarm test.  For every behaviour-preserving change under
# $HARMLESS_ROOT/<Cxx>/*/ (default /tmp/refac; patch.diff + meta.json produced by an independent sub-agent that saw
# only the property text) : apply it in a private scratch worktree, make sure the baseline tests still pass, run the
# registered check(s) against it - they must exit 0 without a VIOLATION line - and keep it, with the verdict, as
# /verif/harmless/<Cxx>/<name>/.  Private copy of the lake project, so several properties can run in parallel.
import json, os, shutil, subprocess, sys
pid = sys.argv[1]
checks = sys.argv[2:] or [pid]
root = os.environ.get("HARMLESS_ROOT", "/tmp/refac")
base = "/work/trial/h-%s" % pid
wt = base + "/repo"


def sh(cmd, **kw):
    p = subprocess.run(cmd, shell=True, stdout=subprocess.PIPE, stderr=subprocess.STDOUT, text=True, **kw)
    return p.returncode, p.stdout


os.makedirs(base, exist_ok=True)
if not os.path.isdir(wt):
    sh("git -C /repo worktree add -q --detach %s HEAD" % wt)
if not os.path.isdir(base + "/lean"):
    subprocess.run("cp -a /verif/lean %s/lean" % base, shell=True, check=True)
head = sh("git -C /repo rev-parse HEAD")[1].strip()
env = "VERIF_LEAN=%s/lean VERIF_TRIAL_EVIDENCE=%s/evidence VERIF_REPO=%s " % (base, base, wt)
for name in sorted(os.listdir("%s/%s" % (root, pid))):
    src = "%s/%s/%s" % (root, pid, name)
    if not (os.path.isfile(src + "/patch.diff") and os.path.isfile(src + "/meta.json")):
        continue
    sh("git -C %s reset -q --hard %s && git -C %s clean -fdq" % (wt, head, wt))
    rc, o = sh("git -C %s apply %s/patch.diff" % (wt, src))
    if rc != 0:
        print("== %s/%s: patch does not apply: %s" % (pid, name, o[-200:]))
        continue
    meta = json.load(open(src + "/meta.json"))
    rct, ot = sh("cd %s && /venv/bin/python -m pytest -q -p no:cacheprovider src/target/trx_toolkit 2>&1 | tail -3" % wt, timeout=900)
    failed = [l for l in ot.split("\n") if l.startswith("FAILED")]
    tests_ok = all("test_no_timing_error_accumulated" in l for l in failed) and ("passed" in ot)
    results, replays = {}, {}
    for c in checks:
        r, out = sh("cd /verif && %s./check %s --tier quick 2>&1 | grep -E 'VIOLATION|tier=|INTERNAL|TIMEOUT|Traceback'" % (env, c), timeout=3600)
        results[c] = out.strip().split("\n")
        import re
        m = re.search(r"replay=(\S+)", out)
        if m and os.path.exists(m.group(1)):
            replays[c] = open(m.group(1)).read()[:20000]
    alarms = [c for c, v in results.items() if not any(": OK in" in x for x in v) or any("VIOLATION" in x for x in v)]
    meta["verdict"] = {"repo_head": head, "baseline_tests_with_patch": ot.strip().split("\n")[-1], "tests_ok": tests_ok,
                       "checks": results, "false_alarm_in": alarms}
    print("== %s/%s tests_ok=%s alarms=%s" % (pid, name, tests_ok, alarms))
    dst = "/verif/harmless/%s/%s" % (pid, name)
    try:
        meta["note"] = json.load(open(dst + "/meta.json")).get("note") or meta.get("note")
        if meta["note"] is None:
            del meta["note"]
    except (OSError, ValueError):
        pass
    shutil.rmtree(dst, ignore_errors=True)
    shutil.copytree(src, dst)
    json.dump(meta, open(dst + "/meta.json", "w"), indent=1)
    for c, txt in replays.items():
        open(dst + "/replay-%s.json.head" % c, "w").write(txt)
sh("git -C /repo worktree remove --force %s" % wt)
shutil.rmtree(base, ignore_errors=True)
sh("git -C /repo worktree prune")
