#!/venv/bin/python
# tools/regress_seeds.py <Cxx> [--harmless]: regression over the accepted changes kept under /verif/seeded/<Cxx>/*/ (each must
# still be reported: VIOLATION line, exit 1) or, with --harmless, under /verif/harmless/<Cxx>/*/ (each must pass: exit 0, no
# VIOLATION line), against the checks as they are now.  Private trial area (/work/trial/r-<Cxx>), so that the properties can be
# processed in parallel.  The verdict of this run is stored in the change's meta.json under "regress".
import json, os, shutil, subprocess, sys
pid = sys.argv[1]
harmless = "--harmless" in sys.argv[2:]
kind = "harmless" if harmless else "seeded"
base = "/work/trial/r-%s-%s" % (kind, pid)
wt = base + "/repo"


def sh(cmd, **kw):
    p = subprocess.run(cmd, shell=True, stdout=subprocess.PIPE, stderr=subprocess.STDOUT, text=True, **kw)
    return p.returncode, p.stdout


os.makedirs(base, exist_ok=True)
if not os.path.isdir(wt):
    sh("git -C /repo worktree add -q --detach %s HEAD" % wt)
if not os.path.isdir(base + "/lean"):
    subprocess.run("cp -a /verif/lean %s/lean" % base, shell=True, check=True)
head = sh("git -C /repo rev-parse HEAD")[1].strip()
env = "VERIF_LEAN=%s/lean VERIF_TRIAL_EVIDENCE=%s/evidence VERIF_REPO=%s " % (base, base, wt)
bad = 0
root = "/verif/%s/%s" % (kind, pid)
for name in sorted(os.listdir(root)) if os.path.isdir(root) else []:
    d = "%s/%s" % (root, name)
    if not os.path.isfile(d + "/patch.diff"):
        continue
    sh("git -C %s reset -q --hard %s && git -C %s clean -fdq" % (wt, head, wt))
    rc, o = sh("git -C %s apply %s/patch.diff" % (wt, d))
    if rc != 0:
        print("== %s/%s: patch does not apply to the current tree (%s)" % (pid, name, o.strip()[-120:]))
        continue
    r, out = sh("cd /verif && %s./check %s --tier quick 2>&1 | grep -E 'VIOLATION|tier=|INTERNAL|TIMEOUT|Traceback'" % (env, pid), timeout=3600)
    lines = out.strip().split("\n")
    viol = any(l.startswith("VIOLATION") for l in lines)
    witness = viol and not any("no-failing-input-found" in l for l in lines)
    ok_line = any(": OK in" in l for l in lines)
    good = (ok_line and not viol) if harmless else viol
    bad += not good
    print("== %s/%s: %s%s" % (pid, name, ("passes" if good else "FALSE ALARM") if harmless else
                              ("detected" if good else "NOT DETECTED"), "" if harmless or not viol else (" with witness" if witness else " (no failing input found)")))
    try:
        meta = json.load(open(d + "/meta.json"))
        meta["regress"] = {"repo_head": head, "lines": lines, "ok": bool(good)}
        if not harmless and good and not meta.get("detected_by"):
            meta["detected_by"] = [pid]
            meta.setdefault("note", "first missed by the check as it was when the change was produced; detected after the check was strengthened (DESIGN.md 10.4)")
        if harmless and good and (meta.get("verdict") or {}).get("false_alarm_in"):
            meta.setdefault("note", "first a false alarm; the weakness of the machinery it showed was removed (DESIGN.md 10.8)")
            meta["verdict"]["false_alarm_in_first_run"] = meta["verdict"].pop("false_alarm_in")
            meta["verdict"]["false_alarm_in"] = []
        json.dump(meta, open(d + "/meta.json", "w"), indent=1)
    except (OSError, ValueError):
        pass
sh("git -C /repo worktree remove --force %s" % wt)
shutil.rmtree(base, ignore_errors=True)
sh("git -C /repo worktree prune")
sys.exit(1 if bad else 0)
