#!/bin/bash
# tools/merge_worker.sh <worker-clone-name> : merge /work/<name> (branch main) into /verif, keeping our
# known_findings.json / evidence / MANIFEST on conflict (they are regenerated / hand-merged afterwards)
set -u
W=$1
cd /verif
git pull -q --no-edit /work/$W main 2>&1 | grep -i conflict
for f in $(git diff --name-only --diff-filter=U); do
  case $f in
    known_findings.json|MANIFEST.json|evidence/*) git checkout --ours -- $f ;;
    lean/OsmoVerif/Model/Trxd.lean|lean/OsmoVerif/Model/Hopping.lean|gen/trxd_consts.py|gen/hopping.py) git checkout --theirs -- $f ;;
    *) echo "UNRESOLVED: $f" ;;
  esac
done
git status --short | grep -E "^(UU|AA)" 
echo "known findings in worker:"; python3 -c "
import json; k=json.load(open('/work/$W/known_findings.json')); print(json.dumps(k.get('findings'),indent=1)); print([x['id'] for x in k.get('fixed',[])])"
