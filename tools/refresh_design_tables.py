#!/usr/bin/env python3
# replaces the two generated tables of DESIGN.md (10.4 seeded changes, 10.8 harmless changes) by the output of
# tools/mkseedtable.py and tools/mkharmlesstable.py
import subprocess, sys
src = open("/verif/DESIGN.md").read().split("\n")
def table(tool):
    return subprocess.run([sys.executable, "/verif/tools/" + tool], stdout=subprocess.PIPE, text=True, check=True).stdout.rstrip("\n").split("\n")
for head, tool in (("| property | seeded change |", "mkseedtable.py"), ("| property | change (kind) |", "mkharmlesstable.py")):
    i = next(k for k, l in enumerate(src) if l.startswith(head))
    j = i
    while j < len(src) and src[j].startswith("|"):
        j += 1
    new = table(tool)
    assert new[0].startswith(head), (head, new[0][:60])
    src[i:j] = new
    print(tool, "rows:", len(new) - 2)
open("/verif/DESIGN.md", "w").write("\n".join(src))
