#!/bin/bash
# tools/soak.sh <tier> <seed-from> <seed-to> : run every registered check for the seeds, print only alarms and timings
cd "$(dirname "$0")/.."
[ -d lean/.lake ] || ./setup > /dev/null 2>&1
TIER=$1; A=$2; B=$3
for s in $(seq $A $B); do
  for p in $(ls props | grep -E '^C[0-9]+\.py$' | sed 's/\.py//'); do
    t0=$(date +%s)
    out=$(VERIF_SEED=$s timeout 3600 ./check $p --tier $TIER 2>&1); rc=$?
    t1=$(date +%s)
    echo "$p seed=$s tier=$TIER rc=$rc $((t1-t0))s"
    if [ $rc -ne 0 ]; then echo "$out" | grep -E "VIOLATION|INTERNAL|TIMEOUT|Error|error" | head -5; fi
  done
done
