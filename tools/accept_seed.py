#!/venv/bin/python
# tools/accept_seed.py <Cxx> <name> [check ids...]: confirm a seeded change myself in a scratch worktree
# (baseline tests pass with it, its demonstration fails with it and passes without it), run the registered
# checks against it, and keep it as /verif/seeded/<Cxx>/<name>/ (patch.diff, demonstration, meta.json).
import json, os, shutil, subprocess, sys
pid, name = sys.argv[1], sys.argv[2]
checks = sys.argv[3:] or [pid]
root = os.environ.get("SEED_ROOT", "/tmp/seed")
src = "%s/%s/%s" % (root, pid, name)
# SEED_WT: scratch worktree (default /work/mut); SEED_PRIVATE=1: private copy of the lake project and of the
# trial evidence directory next to the worktree, so that several seeds can be confirmed in parallel
wt = os.environ.get("SEED_WT", "/work/mut")
envp = ""
if os.environ.get("SEED_PRIVATE"):
    if not os.path.isdir(wt + "-lean"):
        os.makedirs(os.path.dirname(wt), exist_ok=True)
        subprocess.run("cp -a /verif/lean %s-lean" % wt, shell=True, check=True)
    envp = "VERIF_LEAN=%s-lean VERIF_TRIAL_EVIDENCE=%s-evidence " % (wt, wt)
def sh(cmd, **kw):
    p = subprocess.run(cmd, shell=True, stdout=subprocess.PIPE, stderr=subprocess.STDOUT, text=True, **kw)
    return p.returncode, p.stdout
if not os.path.isdir(wt):
    sh("git -C /repo worktree add -q --detach %s HEAD" % wt)
head = sh("git -C /repo rev-parse HEAD")[1].strip()
sh("git -C %s reset -q --hard %s && git -C %s clean -fdq" % (wt, head, wt))
meta = json.load(open(src + "/meta.json"))
demo = meta.get("demo_cmd", "").split("   (")[0].split("  (")[0].split("  #")[0].strip()
# normalise the demo command to run against the scratch worktree
cmd = demo.replace("%s/%s-wt" % (root, pid), wt).replace("<repo>", wt)
if wt not in cmd:
    cmd = cmd + " " + wt
rc0, o0 = sh(cmd, timeout=900)
rc, o = sh("git -C %s apply %s/patch.diff" % (wt, src))
assert rc == 0, o
rct, ot = sh("cd %s && /venv/bin/python -m pytest -q -p no:cacheprovider src/target/trx_toolkit 2>&1 | tail -3" % wt, timeout=900)
failed = [l for l in ot.split("\n") if l.startswith("FAILED")]
tests_ok = all("test_no_timing_error_accumulated" in l for l in failed) and ("passed" in ot)
rc1, o1 = sh(cmd, timeout=900)
results = {}
replays = {}
for c in checks:
    r, out = sh("cd /verif && %sVERIF_REPO=%s ./check %s --tier quick 2>&1 | grep -E 'VIOLATION|tier=|INTERNAL|TIMEOUT'" % (envp, wt, c), timeout=3600)
    results[c] = out.strip().split("\n")
    # keep (the head of) the replay file the check wrote, next to the seeded change
    import re
    m = re.search(r"replay=(\S+)", out)
    if m and os.path.exists(m.group(1)):
        replays[c] = open(m.group(1)).read()[:20000]
sh("git -C %s reset -q --hard %s && git -C %s clean -fdq" % (wt, head, wt))
rc2, o2 = sh(cmd, timeout=900)
ok = (rc0 == 0 and rc1 != 0 and rc2 == 0 and tests_ok)
meta["confirmed"] = {"repo_head": head, "demo_cmd_run": cmd, "demo_rc_unpatched": rc0, "demo_rc_patched": rc1,
                     "demo_rc_reverted": rc2, "baseline_tests_with_patch": ot.strip().split("\n")[-1], "tests_ok": tests_ok,
                     "demo_output_patched_tail": o1[-600:]}
meta["checks"] = results
meta["detected_by"] = [c for c, v in results.items() if any("VIOLATION" in x for x in v)]
print(json.dumps({"ok": ok, "detected_by": meta["detected_by"], "confirmed": {k: meta["confirmed"][k] for k in ("demo_rc_unpatched", "demo_rc_patched", "demo_rc_reverted", "tests_ok")}}))
if ok:
    dst = "/verif/seeded/%s/%s" % (pid, name)
    try:
        old_note = json.load(open(dst + "/meta.json")).get("note")
        if old_note and not meta.get("note"):
            meta["note"] = old_note
    except (OSError, ValueError):
        pass
    shutil.rmtree(dst, ignore_errors=True)
    shutil.copytree(src, dst)
    json.dump(meta, open(dst + "/meta.json", "w"), indent=1)
    for c, txt in replays.items():
        open(dst + "/replay-%s.json.head" % c, "w").write(txt)
