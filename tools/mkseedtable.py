#!/usr/bin/env python3
# prints the markdown table of accepted seeded changes (DESIGN.md section 10.4)
import json, os, glob
print("| property | seeded change | file(s) | needs | detected by | notes |")
print("|---|---|---|---|---|---|")
for p in sorted(glob.glob("/verif/seeded/*/*/meta.json")):
    m = json.load(open(p))
    pid, name = p.split("/")[-3], p.split("/")[-2]
    print("| %s | `%s` — %s | %s | %s | %s | %s |" % (pid, name, m.get("what", "").replace("|", "/")[:220],
          ", ".join(os.path.basename(f) for f in m.get("files", [])), m.get("needs", "").replace("|", "/")[:200],
          ", ".join(m.get("detected_by", [])), (m.get("note") or m.get("strengthened") or "").replace("|", "/")))
