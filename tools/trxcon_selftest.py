#!/venv/bin/python
# standalone validation of the trxcon (C) part: build + Gen + Lean build + correspond + oracle.
#   VERIF_REPO=<tree> VERIF_SEED=<n> tools/trxcon_selftest.py [--tier quick|thorough] [--deep] [--no-lean]
# exit 0: no disagreement and no oracle witness; 1 otherwise (witnesses / disagreements printed)
import argparse, json, os, sys, time
sys.dont_write_bytecode = True
sys.path.insert(0, os.path.dirname(os.path.dirname(os.path.abspath(__file__))))
from lib import vf
from props import trxcon_part


def main():
    ap = argparse.ArgumentParser()
    ap.add_argument("--tier", default=os.environ.get("VERIF_TIER", "quick"), choices=["quick", "thorough"])
    ap.add_argument("--seed", type=int, default=int(os.environ.get("VERIF_SEED", "0") or 0))
    ap.add_argument("--deep", action="store_true")
    ap.add_argument("--no-lean", action="store_true", help="skip lake build of the Props module (driver must exist)")
    args = ap.parse_args()
    run = vf.Run("C00", args.tier, args.seed)
    bad = 0
    try:
        t0 = time.time()
        trxcon_part.gen(run)
        # the driver executable links every Driver/*.lean, hence needs every Gen/*.lean: run the
        # translators of the registered checks as ./setup does
        import importlib, props
        for pid in props.ALL:
            try:
                importlib.import_module("props.%s" % pid).gen(run)
            except Exception as e:
                print("translator of %s failed: %s" % (pid, e))
        if not args.no_lean:
            res = vf.prove(trxcon_part.LEAN_MODULES)
            print("lean: %d theorems, %d discharged, ok=%s (%.0fs)" % (len(res.theorems), len(res.discharged), res.ok, res.build_s))
            if not res.ok:
                bad += 1
                for f in res.failed[:10]:
                    print("  FAILED:", json.dumps(f)[:600])
        else:
            vf.gen_driver()
            rc, out, _ = vf.lake_build(["driver"])      # Gen/Trxcon.lean may have changed
            if rc != 0:
                print("driver build failed:", out[-800:])
                bad += 1
        corr = vf.Corr()
        trxcon_part.correspond(run, corr)
        print("correspond: %d cases, %d disagreements (%.0fs)" % (corr.evaluations, len(corr.disagreements), time.time() - t0))
        for d in corr.disagreements[:8]:
            print("  DISAGREE:", json.dumps({k: v[:400] for k, v in d.items()}))
        bad += len(corr.disagreements)
        found = trxcon_part.oracle(run, corr, deep=args.deep or bool(corr.disagreements))
        print("oracle: %d witnesses (%.0fs)" % (found, time.time() - t0))
        for v in run.violations[:8]:
            print("  WITNESS:", json.dumps(v, default=str)[:900])
        bad += found
        print("distribution:", json.dumps(corr.distribution, sort_keys=True)[:3000])
        print("drift:", run.drift, "notes:", corr.notes)
        print("trxcon selftest seed=%d: %s" % (args.seed, "OK" if not bad else "VIOLATION"))
        return 1 if bad else 0
    finally:
        run.cleanup()


if __name__ == "__main__":
    sys.exit(main())
