T = '''# {pid} — {title}  (fake_trx world property; shared machinery in lib/worldcheck.py)
from lib import vf, worldcheck as wc
from props import trxcon_part, randburst_part

ID = "{pid}"
LEVEL = "proof"
LEAN_MODULES = ["OsmoVerif.Props.{pid}"] + (["OsmoVerif.Props.Trxcon"] if ID == "C05" else []) + (randburst_part.LEAN_MODULES if ID == "C10" else [])
LEAN_MODEL_MODULES = wc.LEAN_MODEL_MODULES + (trxcon_part.LEAN_MODEL_MODULES if ID == "C05" else []) + (randburst_part.LEAN_MODEL_MODULES if ID == "C10" else []) + \\
    (["OsmoVerif.Model.WorldSched"] if ID == "C03" else [])
DRIVER_MODULES = wc.DRIVER_MODULES + (["TrxconIf"] if ID == "C05" else []) + (randburst_part.DRIVER_MODULES if ID == "C10" else []) + (["WorldSched"] if ID == "C03" else [])
ASSUMPTIONS = wc.ASSUMPTIONS + {extra_assumptions!r} + (randburst_part.ASSUMPTIONS if ID == "C10" else [])
MANIFEST = {{
    "text": {text!r},
    "note": {note!r},
    "technique": {technique!r},
    "design_ref": "DESIGN.md section 5 {pid}",
}}
CORR_PROFILES = {corr!r}
ORACLE_PROFILES = {orc!r}


def gen(run):
    wc.gen(run)
    if ID == "C05":
        trxcon_part.gen(run)


def correspond(run, corr):
    wc.correspond(run, corr, CORR_PROFILES, {nq}, {nt}, in_domain=(None if ID == "C14" else wc.domain_of(ID)))
    if ID == "C03":
        # interleaving model vs the real code under forced schedules (one socket-thread operation x one tick, every boundary)
        wc.sched_correspond(run, corr)
    if ID == "C05":
        trxcon_part.correspond(run, corr, parts=("cmd", "rsp"))
    if ID == "C10":
        randburst_part.correspond(run, corr, wc.train(run))


def search(run, corr, deep):
    found = 0
    if ID == "C03":
        # thread schedules: one socket-thread operation racing one tick at every atomic-action boundary
        found += wc.sched_oracle(run, corr, deep)
    # the history oracle searches deeper when a proof or a tie broke, unless the schedule oracle has already produced the failing schedule
    found += wc.oracle(run, corr, deep and not found, ID, ORACLE_PROFILES, {oq}, {ot})
    if ID == "C05":
        # trxcon side: real trx_if.c command emission / response parser, and the cross run with the real toolkit
        found += trxcon_part.oracle(run, corr, deep, parts=("cmd", "rsp"))
        found += wc.c05_cross(run, corr, deep)
    if ID == "C10":
        # the burst generators of rand_burst_gen.py against the TS 45.002 burst layouts
        found += randburst_part.oracle(run, corr, deep, wc.train(run))
    return found


def replay(run, path):
    import json
    rp = json.load(open(path))
    tc = [v["witness"] for v in rp.get("violations", []) if str((v.get("witness") or {{}}).get("kind", "")).startswith("trxcon-")]
    bad = 0
    for w in tc:
        still, text = trxcon_part.replay(run, w)
        print(text)
        bad += bool(still)
    for w in [v["witness"] for v in rp.get("violations", []) if (v.get("witness") or {{}}).get("kind") == "burst-generator"]:
        still, text = randburst_part.replay(run, w, wc.train(run))
        print(text)
        bad += bool(still)
    rc = wc.replay(run, path, ID)
    if bad:
        print("VIOLATION property=%s replay=%s" % (ID, path))
    return 1 if (bad or rc) else 0
'''
NOTE = ("trusted: Lean kernel (+propext, Classical.choice, Quot.sound); translators gen/world.py, gen/py_unicode.py, gen/trxd_consts.py, gen/hopping.py; "
        "the world harness (in-memory sockets, the real CLCKGen._worker loop in lock step in its own OS thread, deterministic randint) and the property reference lib/worldspec.py; "
        "modelled not verified: UDP/select, OS scheduling below whole operations, time.sleep, logging")
TECH = "Lean 4 proof over the executable world model; differential correspondence of whole histories against the real FakeTRX objects; black-box property reference as failing-input oracle"
P = {
 "C12": dict(title="Power state, child transceivers and clock distribution", corr=["power","mixed","family"], orc=["power","mixed","family"],
   text="Lean theorems over Model/World: wiring invariant of every Application configuration, running flag = last effective power command (own or managing parent's) for every history of arbitrary operations, clock links = running clock owners (no duplicates), generator runs iff a link exists, indications exactly to those links at multiples of the period, POWEROFF forgets hopping and queue, port plan; the model is compared with the real objects on generated configurations and histories; an independent reference judges running flags, indications, ports on the real code"),
 "C02": dict(title="Virtual Um routing", corr=["traffic","mixed","drop","revisit"], orc=["traffic","drop","mixed","wrap","revisit"],
   text="Lean theorems: forwardMsg calls handleDataMsg exactly once for each running other transceiver whose Rx frequency in FN (fixed or hopping per TS 45.002) equals the sender's Tx frequency, for no other; datagram delivered iff recipient and not suppressed and metadata valid; nothing to sender/idle/detuned; model tied to the real BurstForwarder/FakeTRX by whole-history correspondence; oracle judges the real routing decisions (traced handle_data_msg calls) against an independent reference incl. an independent hopping implementation"),
 "C10": dict(title="Forwarded bursts: bits and metadata", corr=["radio","traffic","mixed"], orc=["radio","traffic","mixed"],
   text="Lean theorems on handleDataMsg: soft bits 127/-127 per hard bit, FN/TN preserved, recipient's header version with legacy padding on v0, RSSI formula or FAKE_RSSI window, ToA256 window minus 256*TA, C/I window, modulation by burst length, TSC detection on NB/SB/AB layouts over the regenerated training-sequence table; the burst generators of rand_burst_gen.py (gen_nb/gen_sb/gen_ab for every random stream and given or drawn TSC, gen_fb, the dummy-burst table) proved to build exactly those layouts (Props/C10Burst) and compared with the real RandBurstGen under a scripted random source; correspondence of every emitted datagram; oracle parses the delivered datagrams per the TRXD layout and checks them against the reference windows"),
 "C18": dict(title="Burst-loss simulation", corr=["traffic","mixed"], orc=["drop","traffic"],
   text="Lean theorems: after FAKE_DROP n p exactly the first n unmuted bursts with fn % p = 0 are suppressed (induction over any burst stream), mute suppresses all and leaves the counter, one NOPE (no bits, -110/0/-30) per suppressed burst on v1 and nothing on v0, bad arguments rejected without change; correspondence incl. drop counters in the final state; oracle counts suppressed bursts / NOPEs on the real code"),
 "C05": dict(title="TRXC command/response", corr=["ctrl","mixed","fuzz"], orc=["ctrl","mixed"],
   text="Lean theorems on handleRx: exactly one reply 'RSP verb status args [results]\\\\0' to the sender for every datagram starting with CMD, none otherwise, per-verb status and effect lemmas (POWERON/POWEROFF/RXTUNE/TXTUNE/SETFH/SETFORMAT/MEASURE/SETPOWER/NOMTXPOWER/RFMUTE/SETTA/FAKE_*), unknown verbs acknowledged 0, ValueError answered -1 without state change, SETFH of trxcon's maximal length not truncated; trxcon's emitter and response parser (real trx_if.c) proved/tested separately (Props/Trxcon); oracle judges every reply of the real code against the documented semantics"),
 "C03": dict(title="Transmit queue: exactly once, on time", corr=["traffic","wrap","mixed","revisit","family"], orc=["wrap","traffic","mixed","revisit","family"],
   text='Lean theorems: every accepted burst has exactly one outcome (emitted at the tick of its own FN, reported stale, cleared by power-off) or is still queued, for every history incl. clock jumps and the hyperframe wrap (modular comparison), and in every reachable state of an interleaving semantics of socket-thread operations with the atomic actions of a tick (forward_msg split per recipient into the reads and the handle_data_msg call: every boundary the schedule harness can force is a boundary of the model); what handle_data_msg does for a recipient powered off / retuned / re-versioned between the reads and the call is stated exactly (called with the message built earlier, no queue or power state touched); correspondence of queues, stale reports and emissions on sequential histories AND of every forced schedule (one socket operation x one tick at every boundary) between the real code and Sched.exec; oracle judges routing decisions, stale counts and queue lengths on the real code, and exactly-once / on-time / nothing-vanishes / queue-empty-after-POWEROFF / no-exception under every forced schedule',
   note='trusted: Lean kernel (+propext, Classical.choice, Quot.sound); translators gen/world.py, gen/py_unicode.py, gen/trxd_consts.py, gen/hopping.py; the world harness (in-memory sockets, the real CLCKGen._worker loop in lock step in its own OS thread, deterministic randint), the schedule harness (gate on Transceiver.clck_tick, the queue lock, BurstForwarder.forward_msg, FakeTRX.handle_data_msg; inert clock thread object) and the property reference lib/worldspec.py; modelled not verified: UDP/select, OS scheduling below the atomic actions of Model/WorldSched (socket operations are whole actions), time.sleep, logging',
   technique='Lean 4 proof over the executable world model and its interleaving semantics; differential correspondence of whole histories and of forced thread schedules against the real FakeTRX objects; black-box property reference as failing-input oracle',
   assumptions=['schedules: OsmoVerif.Model.WorldSched splits one tick of the clock thread into atomic actions (begin | read running | locked section | fwd-begin | fwd-read of one recipient | fwd-handle = handle_data_msg of that recipient | fwd-end | stale report | done | clck_src increment); an operation of the socket thread is ONE action; tie: harness/py/sched_harness.py runs the real send_clck_ind in a second OS thread, parks it at a boundary (pre-tick, pre-lock, post-lock, pre-forward, pre-handle: each a boundary between two actions of the model), runs one real socket operation to completion there; every such schedule is also computed by Sched.exec (driver verb sched.run) and compared', "not forced by the schedule harness (covered only by the theorems about the model, or outside the model): preemption inside an atomic action of the model (inside a Python statement; between get_tx_freq and rf_muted; between the reads of running / get_rx_freq / _hdr_ver of one recipient; inside handle_data_msg), preemption inside a socket-thread operation, the model's boundaries between two skipped recipients, around stale reports and before the clck_src increment; stop()/join() of the clock thread at the last POWEROFF (inert thread object in the harness)"]),
}
import sys
for pid, d in P.items():
    open("/verif/props/%s.py" % pid, "w").write(T.format(pid=pid, title=d["title"], text=d["text"], note=d.get("note", NOTE),
        technique=d.get("technique", TECH), corr=d["corr"], orc=d["orc"], nq=10000, nt=150000, oq=6000, ot=100000,
        extra_assumptions=d.get("assumptions", [])))
