#!/bin/bash
# tools/try_seed.sh <patch.diff> <Cxx> [more Cxx...] : run checks against a scratch worktree of /repo with the patch applied
# (never touches /repo itself); prints the verdict lines.  Worktree: /work/mut (created on demand).
set -u
PATCH=$1; shift
WT=${SEED_WT:-/work/mut}
[ -d "$WT" ] || git -C /repo worktree add -q --detach "$WT" HEAD
git -C "$WT" reset -q --hard "$(git -C /repo rev-parse HEAD)"
git -C "$WT" apply "$PATCH" || { echo "patch does not apply"; exit 2; }
for P in "$@"; do
  echo "== $P on $(basename $(dirname $PATCH))"
  (cd /verif && VERIF_REPO=$WT ./check $P --tier ${TIER:-quick} 2>&1 | grep -E "VIOLATION|KNOWN-FINDING|tier=|INTERNAL|TIMEOUT" )
done
git -C "$WT" reset -q --hard HEAD
