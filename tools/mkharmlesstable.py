#!/usr/bin/env python3
# prints the markdown table of behaviour-preserving changes used as false-alarm test (DESIGN.md section 10.8)
import json, os, glob
print("| property | change (kind) | file(s) | why the property is unaffected | verdict of the check |")
print("|---|---|---|---|---|")
for p in sorted(glob.glob("/verif/harmless/*/*/meta.json")):
    m = json.load(open(p))
    pid, name = p.split("/")[-3], p.split("/")[-2]
    v = m.get("verdict", {})
    verdict = "exit 0, no alarm" if not v.get("false_alarm_in") else "ALARM (%s)" % ", ".join(v["false_alarm_in"])
    if m.get("note"):
        verdict += " — " + m["note"]
    print("| %s | `%s` (%s) — %s | %s | %s | %s |" % (pid, name, m.get("kind", "?"), m.get("what", "").replace("|", "/")[:200],
          ", ".join(os.path.basename(f) for f in m.get("files", [])), m.get("why_harmless", "").replace("|", "/")[:180], verdict))
