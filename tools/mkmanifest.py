#!/venv/bin/python
# regenerates /verif/MANIFEST.json from the props registry
import importlib, json, os, sys
sys.dont_write_bytecode = True
ROOT = os.path.dirname(os.path.dirname(os.path.abspath(__file__)))
sys.path.insert(0, ROOT)
import props

PENDING = {}
try:
    PENDING = json.load(open(os.path.join(ROOT, "tools/not_applicable.json")))
except FileNotFoundError:
    pass

def main():
    checks = []
    for pid in props.ALL:
        m = importlib.import_module("props.%s" % pid)
        mf = m.MANIFEST
        checks.append({
            "property_id": pid,
            "quick_cmd": "./check %s --tier quick" % pid,
            "thorough_cmd": "./check %s --tier thorough" % pid,
            "evidence_file": "/verif/evidence/%s.json" % pid,
            "replay_cmd_template": "./check %s --replay {path}" % pid,
            "engine": "lean4-proof+correspondence",
            "level_claimed": {"category": m.LEVEL, "text": mf["text"], "design_ref": mf.get("design_ref", "DESIGN.md section 5")},
            "level_note": mf["note"],
            "technique": mf["technique"],
        })
    all_ids = [json.loads(l)["id"] for l in open(os.path.join(ROOT, "properties.jsonl"))]
    na = [{"property_id": i, "reason": PENDING.get(i, "check not built yet (construction order in DESIGN.md 6.1); not claimed")}
          for i in all_ids if i not in props.ALL]
    man = {
        "version": 1,
        "setup_cmd": "./setup",
        "hooks": {
            "guard": "OSMOCOM_BB_VERIF",
            "enable": "no source hooks: sockets, clock, lock and randomness are replaced from outside in the harness process; C code is compiled from /repo with shim headers and recording stubs",
            "baseline_off_cmd": "cd /repo && /venv/bin/python -m pytest -ra -q -p no:cacheprovider --timeout=900 --continue-on-collection-errors",
            "source_commits": [],
            "add_only": True,
        },
        "engines": [{
            "name": "lean4-proof+correspondence",
            "path": "/verif/lean",
            "serves_properties": list(props.ALL),
            "kind_free_text": "Lean 4 theorems over executable models (OsmoVerif.Props.*), models tied to /repo by regenerated tables/constants (gen/) and by differential execution of the real Python/C code against the compiled Lean driver (check, props/, harness/)",
        }],
        "checks": checks,
        "not_applicable": na,
        "notes": "every check: ./check Cxx [--tier quick|thorough]; VERIF_SEED selects the random stream; evidence in /verif/evidence/Cxx.json; known findings in /verif/known_findings.json; every check = translators (gen/) -> lake build + #print axioms audit + forbidden-token grep -> correspondence of the real code with the Lean model (differences outside a property's stated domain are evidence, not a broken tie) -> thorough: leanchecker -> property oracle on the real code (independent of the model; history oracles on ONE object: decoder, message object, capture file, transceiver, clock generator); parts of the model that a property's text does not name (C13 random generators, C19 SCH decoders) are reported as NOTE lines and evidence, they do not decide; DESIGN.md section 10 is the as-built description, 10.4/10.8 list the 190 seeded and 227 harmless changes the checks are regressed against",
    }
    with open(os.path.join(ROOT, "MANIFEST.json"), "w") as f:
        json.dump(man, f, indent=1)
    try:
        import jsonschema
        jsonschema.validate(man, json.load(open("/root/.vp/MANIFEST.schema.json")))
        print("MANIFEST.json valid, %d checks, %d not_applicable" % (len(checks), len(na)))
    except ImportError:
        print("MANIFEST.json written (jsonschema not available here)")

if __name__ == "__main__":
    main()
