#!/venv/bin/python
# mutation campaign for the trxcon part: applies each realistic mutation of trx_if.c / trx_if.h in the
# worktree named by VERIF_REPO (never /repo), runs tools/trxcon_selftest.py, prints what caught it, and
# restores the file.   usage: VERIF_REPO=/work/<wt> tools/trxcon_mutations.py [index ...]
import subprocess, sys, os, json
REPO = os.environ.get("VERIF_REPO", "")
if not REPO or os.path.realpath(REPO) == "/repo":
    sys.exit("set VERIF_REPO to your own worktree (not /repo)")
ROOT = os.path.dirname(os.path.dirname(os.path.abspath(__file__)))
F = REPO + "/src/host/trxcon/src/trx_if.c"
MUTS = [
 ("edge +2 case removed", "\tcase GSM_NBITS_NB_8PSK_BURST + 2:\n", ""),
 ("127 - buf -> 128 - buf", "burst[i] = 127 - buf[8 + i];", "burst[i] = 128 - buf[8 + i];"),
 ("toa256 cast dropped", ".toa256 = (int16_t) (buf[6] << 8) | buf[7],", ".toa256 = (buf[6] << 8) | buf[7],"),
 ("FN check > instead of >=", "if (bi.fn >= GSM_TDMA_HYPERFRAME) {", "if (bi.fn > GSM_TDMA_HYPERFRAME) {"),
 ("strncmp length +1", "if (!!strncmp(buf + 4, tcm->cmd + 4, rsp_len)) {", "if (!!strncmp(buf + 4, tcm->cmd + 4, rsp_len + 1)) {"),
 ("strncmp length -1", "if (!!strncmp(buf + 4, tcm->cmd + 4, rsp_len)) {", "if (!!strncmp(buf + 4, tcm->cmd + 4, rsp_len - 1)) {"),
 ("MEASURE offset 14 -> 13", "buf + OSMO_MIN(read_len, 14)", "buf + OSMO_MIN(read_len, 13)"),
 ("rssi sign dropped", ".rssi = -(int8_t) buf[5],", ".rssi = (int8_t) buf[5],"),
 ("tn mask 0x07 -> 0x0f", ".tn = buf[0] & 0x07,", ".tn = buf[0] & 0x0f,"),
 ("ubit 255 special case removed", "\t\tif (buf[8 + i] == 255)\n\t\t\tburst[i] = -127;\n\t\telse\n", ""),
 ("rts without fn_advance", ".fn = GSM_TDMA_FN_SUM(bi.fn, trx->fn_advance),", ".fn = bi.fn,"),
 ("tx pwr/tn swapped", "buf[5] = br->pwr;", "buf[5] = br->tn;"),
 ("tx length 6 -> 8", "\tlength = 6;\n", "\tlength = 8;\n"),
 ("chan_types PDCH 13 -> 12", "[GSM_PCHAN_PDCH]                = 13,", "[GSM_PCHAN_PDCH]                = 12,"),
 ("TXTUNE uses downlink", "freq10 = gsm_arfcn2freq10(cmdp->band_arfcn, 1);", "freq10 = gsm_arfcn2freq10(cmdp->band_arfcn, 0);"),
 ("SETTA critical", 'return trx_ctrl_cmd(trx, 0, "SETTA", "%d", cmdp->ta);', 'return trx_ctrl_cmd(trx, 1, "SETTA", "%d", cmdp->ta);'),
 ("SETFH room check >=", "if (rc < 0 || rc > ma_buf_len) {", "if (rc < 0 || rc >= ma_buf_len) {"),
 ("SETFH ma_buf 24 -> 124", "char ma_buf[TRXC_BUF_SIZE - 24];", "char ma_buf[TRXC_BUF_SIZE - 124];"),
 ("critical check dropped", "\t\tif (tcm->critical)\n\t\t\tgoto rsp_error;", "\t\tgoto rsp_error;"),
 ("status check: p == NULL dropped (F6 reintroduced)", 'if (p == NULL || sscanf(p + 1, "%d", &resp) != 1) {', 'if (sscanf(p + 1, "%d", &resp) != 1) {'),
 ("status check: return value ignored (F6 reintroduced)", 'if (p == NULL || sscanf(p + 1, "%d", &resp) != 1) {', 'if (p == NULL || sscanf(p + 1, "%d", &resp) < 0) {'),
 ("POWEROFF -> state ACTIVE", "trx->powered_up = false;\n\t\tosmo_fsm_inst_state_chg(trx->fi, TRX_STATE_IDLE, 0, 0);", "trx->powered_up = false;\n\t\tosmo_fsm_inst_state_chg(trx->fi, TRX_STATE_ACTIVE, 0, 0);"),
 ("TRXD_BUF_SIZE 512 -> 256 (header)", None, None),
]
only = sys.argv[1:] 
orig = open(F).read()
H = REPO + "/src/host/trxcon/include/osmocom/bb/trxcon/trx_if.h"
horig = open(H).read()
res = []
for i, (name, a, b) in enumerate(MUTS):
    if only and str(i) not in only: continue
    try:
        if a is None:
            assert horig.count("#define TRXD_BUF_SIZE\t512") == 1
            open(H, "w").write(horig.replace("#define TRXD_BUF_SIZE\t512", "#define TRXD_BUF_SIZE\t256"))
        else:
            assert orig.count(a) == 1, (name, orig.count(a))
            open(F, "w").write(orig.replace(a, b))
        nolean = [] if (a is None or "chan_types" in name) else ["--no-lean"]
        p = subprocess.run(["/venv/bin/python", "tools/trxcon_selftest.py"] + nolean, cwd=ROOT,
                           env=dict(os.environ, VERIF_REPO=REPO, VERIF_SEED="0"), capture_output=True, text=True)
        lines = [l for l in p.stdout.split("\n") if l.startswith(("correspond", "oracle", "  DISAGREE", "  WITNESS", "trxcon selftest", "lean", "  FAILED"))]
        print("=== [%d] %s -> exit %d" % (i, name, p.returncode))
        for l in lines[:12]:
            print("   ", l[:420])
        if p.returncode not in (0, 1):
            print(p.stderr[-1500:])
    finally:
        open(F, "w").write(orig)
        open(H, "w").write(horig)
subprocess.run(["git", "-C", REPO, "status", "--short"])
