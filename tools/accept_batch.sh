#!/bin/bash
# tools/accept_batch.sh <Cxx> [extra check ids...]: confirm every seeded change under $SEED_ROOT/<Cxx>/*/ (default
# /tmp/seed2) with tools/accept_seed.py in a private trial area (/work/trial/<Cxx>: scratch worktree, private copy of
# the lake project, private trial evidence), so that several properties can be processed in parallel; the trial area
# is removed afterwards.
set -u
PID=$1; shift
export SEED_ROOT=${SEED_ROOT:-/tmp/seed2}
export SEED_WT=/work/trial/$PID/repo
export SEED_PRIVATE=1
mkdir -p /work/trial/$PID
for d in "$SEED_ROOT/$PID"/*/; do
  n=$(basename "$d")
  [ -f "$d/meta.json" ] && [ -f "$d/patch.diff" ] || continue
  echo "== $PID/$n"
  /venv/bin/python /verif/tools/accept_seed.py "$PID" "$n" "$PID" "$@" 2>&1 | tail -3
done
git -C /repo worktree remove --force "$SEED_WT" 2>/dev/null
rm -rf /work/trial/$PID
git -C /repo worktree prune
